#![allow(dead_code)]
mod engine;
mod props;
mod refmodel;
mod subject;

use engine::worker::{worker_main, WorkerArgs};
use engine::*;

fn usage() -> ! {
    eprintln!(
        "usage: mc run <Cxx> --tier quick|thorough [--jobs N] [--configs checked,release]\n       mc worker <Cxx> <tier> <shard> <nshards> [--start-after g] [--only-chunk k] [--announce] [--dump] [--hashes path]\n       mc case <Cxx> <tier> <family> <index>\n       mc replay <file>\n       mc selftest\n       mc list"
    );
    std::process::exit(2)
}

fn find_prop(id: &str) -> &'static PropDef {
    match props::registry().iter().find(|p| p.id == id) {
        Some(p) => p,
        None => {
            eprintln!("unknown property {}", id);
            std::process::exit(2)
        }
    }
}

fn run_in_big_thread<T: Send + 'static>(f: impl FnOnce() -> T + Send + 'static) -> T {
    // 8 MiB: the default main-thread stack of a user's process
    std::thread::Builder::new().stack_size(8 << 20).spawn(f).unwrap().join().unwrap()
}

fn main() {
    let args: Vec<String> = std::env::args().collect();
    if args.len() < 2 {
        usage();
    }
    match args[1].as_str() {
        "list" => {
            for p in props::registry() {
                println!("{}\t{}", p.id, p.level);
            }
        }
        "selftest" => {
            let code = run_in_big_thread(|| refmodel::selftest::run());
            std::process::exit(code);
        }
        "run" => {
            if args.len() < 3 {
                usage();
            }
            let prop = find_prop(&args[2]);
            let mut tier = std::env::var("VERIF_TIER").ok().and_then(|s| Tier::parse(&s)).unwrap_or(Tier::Quick);
            let mut jobs = std::thread::available_parallelism().map(|n| n.get()).unwrap_or(8);
            let mut configs: Vec<&'static str> = vec!["checked", "release"];
            let mut i = 3;
            while i < args.len() {
                match args[i].as_str() {
                    "--tier" => {
                        tier = Tier::parse(&args[i + 1]).unwrap_or_else(|| usage());
                        i += 1;
                    }
                    "--jobs" => {
                        jobs = args[i + 1].parse().unwrap_or_else(|_| usage());
                        i += 1;
                    }
                    "--configs" => {
                        configs = args[i + 1]
                            .split(',')
                            .map(|c| match c {
                                "checked" => "checked",
                                "release" => "release",
                                _ => usage(),
                            })
                            .collect();
                        i += 1;
                    }
                    _ => usage(),
                }
                i += 1;
            }
            let seed = std::env::var("VERIF_SEED").ok().and_then(|s| s.parse::<u64>().ok()).unwrap_or(0);
            let code = run_in_big_thread(move || orch::run(orch::RunOptions { prop, tier, seed, jobs, configs }));
            std::process::exit(code);
        }
        "worker" => {
            if args.len() < 6 {
                usage();
            }
            let prop = find_prop(&args[2]);
            let tier = Tier::parse(&args[3]).unwrap_or_else(|| usage());
            let mut wa = WorkerArgs {
                shard: args[4].parse().unwrap(),
                nshards: args[5].parse().unwrap(),
                start_after: None,
                announce: false,
                only_chunk: None,
                dump: false,
                hashes: None,
            };
            let mut i = 6;
            while i < args.len() {
                match args[i].as_str() {
                    "--start-after" => {
                        wa.start_after = Some(args[i + 1].parse().unwrap());
                        i += 1;
                    }
                    "--only-chunk" => {
                        wa.only_chunk = Some(args[i + 1].parse().unwrap());
                        i += 1;
                    }
                    "--hashes" => {
                        wa.hashes = Some(args[i + 1].clone());
                        i += 1;
                    }
                    "--announce" => wa.announce = true,
                    "--dump" => wa.dump = true,
                    _ => usage(),
                }
                i += 1;
            }
            if let Some(sa) = wa.start_after {
                if wa.only_chunk.is_none() {
                    // skip chunks that lie entirely before the resume point
                    let c0 = (sa + 1) / CHUNK;
                    let mut k = c0 - (c0 % wa.nshards) + wa.shard;
                    if k < c0 {
                        k += wa.nshards;
                    }
                    // worker_main starts at `shard` and steps by nshards: emulate by only_chunk-free start
                    wa.shard = k;
                }
            }
            let code = run_in_big_thread(move || worker_main((prop.build)(tier), wa));
            std::process::exit(code);
        }
        "case" => {
            if args.len() < 6 {
                usage();
            }
            let prop = find_prop(&args[2]);
            let tier = Tier::parse(&args[3]).unwrap_or_else(|| usage());
            let fam: usize = args[4].parse().unwrap();
            let idx: u64 = args[5].parse().unwrap();
            let code = run_in_big_thread(move || case_main(prop, tier, fam, idx, false));
            std::process::exit(code);
        }
        "replay" => {
            if args.len() < 3 {
                usage();
            }
            let text = std::fs::read_to_string(&args[2]).unwrap_or_else(|e| {
                eprintln!("cannot read {}: {}", args[2], e);
                std::process::exit(2)
            });
            let v: serde_json::Value = serde_json::from_str(&text).unwrap_or_else(|e| {
                eprintln!("bad replay file: {}", e);
                std::process::exit(2)
            });
            let prop = find_prop(v["property"].as_str().unwrap_or(""));
            let tier = Tier::parse(v["tier"].as_str().unwrap_or("quick")).unwrap_or(Tier::Quick);
            let fam = v["family_index"].as_u64().unwrap_or(0) as usize;
            let idx = v["index"].as_u64().unwrap_or(0);
            let stored = v["case"].clone();
            let code = run_in_big_thread(move || {
                let check = (prop.build)(tier);
                let now = check.describe(fam, idx);
                if now != stored {
                    println!("warning: the enumeration changed since this replay was recorded; stored case: {}", stored);
                }
                drop(check);
                case_main(prop, tier, fam, idx, true)
            });
            std::process::exit(code);
        }
        _ => usage(),
    }
}

fn case_main(prop: &'static PropDef, tier: Tier, fam: usize, idx: u64, verbose: bool) -> i32 {
    worker::install_panic_hook();
    worker::limit_address_space(6 << 30);
    let check = (prop.build)(tier);
    let mut ctx = Ctx::new();
    ctx.keep_observation = true;
    if verbose {
        println!("property {} ({} build) case: {}", prop.id, config_name(), check.describe(fam, idx));
    }
    // hang watchdog for the single case: a helper thread exits the process with status 4
    let limit = worker::hang_limit_ns();
    std::thread::spawn(move || {
        loop {
            std::thread::sleep(std::time::Duration::from_millis(200));
            if worker::process_cpu_ns() > limit + 2_000_000_000 {
                println!("VK\thang");
                unsafe { libc::_exit(4) };
            }
        }
    });
    worker::run_one(check.as_ref(), fam, idx, &mut ctx);
    println!("OBS\t{}", serde_json::to_string(&String::from_utf8_lossy(&ctx.observation)).unwrap());
    for v in &ctx.violations {
        println!("VK\t{}\t{}", v.kind, serde_json::to_string(&v.detail).unwrap());
    }
    if verbose {
        println!("observed: {:?}", String::from_utf8_lossy(&ctx.observation));
        if ctx.violations.is_empty() {
            println!("no violation in the {} build", config_name());
        }
        for v in &ctx.violations {
            println!("violation [{}]: {}", v.kind, v.detail);
        }
    }
    if ctx.violations.is_empty() {
        0
    } else {
        1
    }
}

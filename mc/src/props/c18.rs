//! C18 — constant-assignment lint is exact and its suggested rewrite is equivalent.
use crate::engine::space::Space;
use crate::engine::*;
use crate::refmodel::interp::{Interp, Limits};
use crate::refmodel::rast::{self, *};
use crate::refmodel::value::V;
use serde_json::{json, Value};

pub const DEF: PropDef = PropDef {
    id: "C18",
    level: "exploration",
    rule: "every assignment form (put..into, let..be, compound let, `T is <expr>`, `T is <poetic words>`, `T says`, rock T with E, rock T with a list, rock T like, rock T) x 5 targets (simple / common / proper name, pronoun, subscript) x 78 + 235 right-hand sides (number literals of every size: 1..25 digits, 2^k and neighbours, fractions of 1..20 digits, exponents to overflow, leading zeros; 0, 5, 10, 100, 105.25, 0.5, 1e21, 0.1 plus 0.2, a folding list, 0 - 5, -5, 1 over 0, 0 over 0, strings: empty, spaces, punctuation, a line break in the middle / at the end / at the start / alone / doubled, blanks at either end, tab, non-ASCII, token look-alikes, keyword-empty, 63 / 64 / 65 / 128 / 257 bytes long, long multi-byte texts at odd and even offsets; non-constants: variable, call, roll, boolean, null, mixed, string concatenation, not over numbers and over string literals) x 15 positions (top level, if, else, until (also nested with while and if), else after an empty then-block (also nested and in a loop), loop, function, depth 3, after a multi-line comment, after a two-line string, last line without newline); second family: all sequences of 2..3 of 24 one-line statements (7 with a due diagnostic, 17 without, covering every statement shape the pass has an arm for): the reported lines are exactly the due lines; oracle: a diagnostic is due exactly when the reference predicate (ordinary expression folding to one numeric constant, or plain string literal for assignments, not compound) holds; its line is the statement's line; it quotes the value and (plain variables) the target; the starred words of the suggestion spell the digits of the value; instantiating the stars gives a line that parses, runs and leaves the target with that value; values without poetic spelling get no starred / says suggestion; linting never panics; non-trivial = all cases; distinct = distinct text",
    assumptions: &["reference predicate and constant value computed on the position-free tree with the reference interpreter", "round-trip tolerance: 4 ulp up to 7 digits, 64 ulp for longer numerals (the rounding of poetic literals)"],
    build,
    exhaustive: true,
};

pub const FORMS: &[&str] = &["put E into T", "let T be E", "let T be with E", "let T be times E", "T is E", "rock T with E", "rock T with E, 1", "let T be E, 1", "let T be 1, E", "put E, 1 into T", "T says hello there", "rock T like a rolling stone", "rock T", "T is a wordy literal"];
pub const TARGETS: &[&str] = &["x", "the zed", "Zed Yod", "it", "x at 0"];
pub const RHS: &[&str] = &[
    "0", "5", "10", "100", "105.25", "0.5", "1e21", "0.1 plus 0.2", "2 times 3, 4", "0 - 5", "-5", "-0", "0 times -2", "0 over -5", "0.0", "1 over 0", "0 over 0", "-1 over 0", "1e308 times 10", "1 over 3", "123456789012345678", "0.1", "1e16", "10 without 1, 2", "100 over 5, 2", "2 times 3, 4 plus 1", "\"\"", "\"a b\"", "\"a, b! (c)\"", "\"a\nb\"", "empty", "y",
    "fun taking 1", "roll y", "roll 5", "5 at 0", "roll \"s\"", "0.1 plus 0.2, 0.3", "0.1 times 0.2, 0.3", "1e308 times 10, 0.1", "0.1 plus 0.1 times 0.1", "3 over 5", "5 over 3", "49 over 49", "7 over 10", "1 over 49 times 49", "0.1 times 3", "not not 5", "- - 5", "- not 5", "true", "null", "1 plus y", "\"a\" plus \"b\"", "not 1",
    // strings: a line break at the end, at the start, alone, doubled; blanks at either end; a tab; non-ASCII; look-alikes of other tokens
    "\"a\n\"", "\"\n\"", "\"\na\"", "\"a\n\nb\"", "\" a\"", "\"a \"", "\"a\tb\"", "\"é😀\"", "\"5\"", "\"says x\"", "\"it's\"", "\"true\"",
    // a unary operator over a string literal is not a plain literal
    "not \"abc\"", "not not \"a b\"", "not \"\"",
    // long string literals (ASCII lengths around 64 / 128 / 256; multi-byte text at odd and even offsets)
    "\"abcdefghi abcdefghi abcdefghi abcdefghi abcdefghi abcdefghi abc\"", "\"abcdefghi abcdefghi abcdefghi abcdefghi abcdefghi abcdefghi abcd\"", "\"abcdefghi abcdefghi abcdefghi abcdefghi abcdefghi abcdefghi abcde\"", "\"abcdefghi abcdefghi abcdefghi abcdefghi abcdefghi abcdefghi abcdefghi abcdefghi abcdefghi abcdefghi abcdefghi abcdefghi abcdefgh\"", "\"abcdefghi abcdefghi abcdefghi abcdefghi abcdefghi abcdefghi abcdefghi abcdefghi abcdefghi abcdefghi abcdefghi abcdefghi abcdefghi abcdefghi abcdefghi abcdefghi abcdefghi abcdefghi abcdefghi abcdefghi abcdefghi abcdefghi abcdefghi abcdefghi abcdefghi abcdefg\"", "\"aéééééééééééééééééééééééééééééééééééééééé\"", "\"éééééééééééééééééééééééééééééééééééééééééééééééééééééééééééééééééééééé\"", "\"ab😀😀😀😀😀😀😀😀😀😀😀😀😀😀😀😀😀😀😀😀😀😀😀😀😀😀😀😀😀😀😀😀😀😀😀😀😀😀😀😀😀😀😀😀😀😀😀😀😀😀😀😀😀😀😀😀😀😀😀😀😀😀😀😀😀😀😀😀😀😀\"",
];
/// (prefix, suffix, final newline)
pub const CONTEXTS: &[(&str, &str, bool)] = &[
    ("", "", true),
    ("if c\n", "\nsay 9\n", true),
    ("if c\nsay 1\nelse\n", "\nsay 9\n", true),
    ("while c\n", "\n", true),
    ("fun takes k\n", "\nsay 9\n", true),
    ("fun takes k\nwhile k\nif c\nsay 1\n", "\n\n\nsay 9\n", true),
    ("(a\ntwo-line comment)\nsay 1\n", "say 9\n", true),
    ("say \"a\nb\"\n\n", "say 9\n", true),
    ("say 1\n", "", false),
    // an empty then-block directly followed by else; the same inside a loop
    ("if c\nelse\n", "\nsay 9\n", true),
    ("while c\nif c\nelse\n", "\n\nsay 9\n", true),
    ("if c\nelse\nif c\nelse\n", "\n\nsay 9\n", true),
    // every kind of block, nested in each other
    ("until c\n", "\n", true),
    ("until c\nwhile c\nuntil c\n", "\n\n\nsay 9\n", true),
    ("if c\nuntil c\n", "\n\nsay 9\n", true),
];

pub struct C18 {
    cases: Space<(usize, usize, usize, usize)>,
    /// programs of several one-line statements: the reported lines must be exactly the due lines
    multi: Space<Vec<&'static str>>,
}

/// one-line statements, with and without a due diagnostic, including every statement shape the pass
/// has its own arm for (so that no arm can end the whole pass)
pub const MULTI: &[&str] = &[
    "put 5 into x", "let y be 2 times 3", "rock z with 7", "x is 5", "put \"s\" into y", "put 0 - 5 into z", "let the zed be 1.5",
    "rock z", "rock z like a rolling stone", "rock z with 1, 2", "rock z with \"s\"", "let x be with 5", "y says hi", "x is a wordy literal",
    "put y into x", "say 5", "listen to x", "build x up", "roll z", "roll z into y", "cut y into w", "fun taking 5", "put fun taking 5 into x", "let x at 0 be y",
];

/// right-hand side number r: the hand-written list, then number literals of every size
pub fn rhs(r: usize) -> String {
    if r < RHS.len() {
        RHS[r].to_string()
    } else {
        crate::refmodel::grammar::numerals()[r - RHS.len()].clone()
    }
}
pub fn rhs_count() -> usize {
    RHS.len() + crate::refmodel::grammar::numerals().len()
}

fn build(_tier: Tier) -> Box<dyn Check> {
    let f: Space<usize> = Space::of((0..FORMS.len()).collect());
    let t: Space<usize> = Space::of((0..TARGETS.len()).collect());
    let r: Space<usize> = Space::of((0..rhs_count()).collect());
    let c: Space<usize> = Space::of((0..CONTEXTS.len()).collect());
    let m: Space<&'static str> = Space::of(MULTI.to_vec());
    Box::new(C18 { cases: f.product(&t, |f, t| (f, t)).product(&r, |(f, t), r| (f, t, r)).product(&c, |(f, t, r), c| (f, t, r, c)), multi: m.seq_range(2, 3) })
}

pub fn fill(form: &str, t: &str, e: &str) -> String {
    let mut s = String::new();
    for ch in form.chars() {
        match ch {
            'T' => s.push_str(t),
            'E' => s.push_str(e),
            x => s.push(x),
        }
    }
    s
}

fn find_target(stmts: &[Stmt]) -> Option<&Stmt> {
    for s in stmts {
        match s {
            Stmt::Assign { .. } | Stmt::PoeticNum { .. } | Stmt::PoeticStr { .. } | Stmt::Push { .. } => return Some(s),
            Stmt::If { then, els, .. } => {
                if let Some(x) = find_target(then) {
                    return Some(x);
                }
                if let Some(e) = els {
                    if let Some(x) = find_target(e) {
                        return Some(x);
                    }
                }
            }
            Stmt::While { body, .. } | Stmt::Until { body, .. } | Stmt::Function { body, .. } => {
                if let Some(x) = find_target(body) {
                    return Some(x);
                }
            }
            _ => {}
        }
    }
    None
}

fn pure_numeric(e: &Expr) -> bool {
    match e {
        Expr::Prim(Prim::Lit(Lit::Num(_))) => true,
        Expr::Prim(_) => false,
        Expr::Bin(op, l, rs) => matches!(op, BinOp::Plus | BinOp::Minus | BinOp::Times | BinOp::Over) && pure_numeric(l) && rs.iter().all(pure_numeric),
        Expr::Un(UnOp::Neg, x) => pure_numeric(x),
        Expr::Un(UnOp::Not, _) => false,
    }
}

#[derive(Debug)]
enum Due {
    Num(f64),
    Str(String),
}

fn eval_const(e: &Expr) -> f64 {
    let mut it = Interp::new(b"", false, Limits::default());
    match it.eval(e) {
        Ok(V::Num(n)) => n,
        other => panic!("constant expression does not evaluate to a number: {:?}", other),
    }
}

/// (what is due, target as a plain variable name if it is one, is this a push)
fn reference_predicate(s: &Stmt) -> (Option<Due>, Option<String>, bool) {
    let plain = |l: &Lhs| match l {
        Lhs::Ident(Ident::Name(n)) => Some(n.text()),
        _ => None,
    };
    let of_expr = |e: &Expr, strings: bool| {
        if pure_numeric(e) {
            Some(Due::Num(eval_const(e)))
        } else if let (true, Expr::Prim(Prim::Lit(Lit::Str(s)))) = (strings, e) {
            Some(Due::Str(s.clone()))
        } else {
            None
        }
    };
    match s {
        Stmt::Assign { dest, op: None, value } if value.len() == 1 => (of_expr(&value[0], true), plain(dest), false),
        Stmt::Assign { dest, .. } => (None, plain(dest), false),
        Stmt::PoeticNum { dest, rhs: PoeticRhs::Expr(e) } => (of_expr(e, true), plain(dest), false),
        Stmt::PoeticNum { dest, .. } | Stmt::PoeticStr { dest, .. } => (None, plain(dest), false),
        Stmt::Push { array, value: Some(PushRhs::List(es)) } if es.len() == 1 => (
            of_expr(&es[0], false),
            match array {
                Prim::Ident(Ident::Name(n)) => Some(n.text()),
                _ => None,
            },
            true,
        ),
        Stmt::Push { array, .. } => (
            None,
            match array {
                Prim::Ident(Ident::Name(n)) => Some(n.text()),
                _ => None,
            },
            true,
        ),
        _ => (None, None, false),
    }
}

fn backticked(s: &str) -> Vec<String> {
    let parts: Vec<&str> = s.split('`').collect();
    parts.iter().enumerate().filter(|(i, _)| i % 2 == 1).map(|(_, p)| p.to_string()).collect()
}

fn ulps(a: f64, b: f64) -> u64 {
    if a == b {
        0
    } else if !a.is_finite() || !b.is_finite() || (a < 0.0) != (b < 0.0) {
        u64::MAX
    } else {
        let (x, y) = (a.to_bits(), b.to_bits());
        if x > y {
            x - y
        } else {
            y - x
        }
    }
}

impl C18 {
    fn text(&self, idx: u64) -> (String, u32, bool) {
        let (f, t, r, c) = self.cases.get(idx);
        let stmt = fill(FORMS[f], TARGETS[t], &rhs(r));
        let (pre, suf, nl) = CONTEXTS[c];
        // a pronoun target needs a statement that is not an assignment before it; none is needed for linting
        let line = 1 + pre.matches('\n').count() as u32;
        // `T is E` with a non-literal E is a poetic literal; that is fine (nothing is due)
        (format!("{}{}{}{}", pre, stmt, if nl { "\n" } else { "" }, suf), line, FORMS[f] == "T is E")
    }
}

impl Check for C18 {
    fn families(&self) -> Vec<(String, u64)> {
        vec![("form x target x rhs x position".into(), self.cases.len()), ("programs of 2..3 statements".into(), self.multi.len())]
    }
    fn describe(&self, fam: usize, idx: u64) -> Value {
        if fam == 1 {
            return json!({"text": self.multi.get(idx).join("\n") + "\n"});
        }
        let (t, line, _) = self.text(idx);
        json!({"text": t, "statement_line": line})
    }
    fn run_case(&self, fam: usize, idx: u64, ctx: &mut Ctx) {
        if fam == 1 {
            let text = self.multi.get(idx).join("\n") + "\n";
            ctx.case_text(&text);
            let prog = match rrss::frontend::parser::parse(&text) {
                Ok(p) => p,
                Err(e) => {
                    ctx.violation("unexpected-parse-error", format!("{} — {:?}", e, text));
                    return;
                }
            };
            ctx.nontrivial();
            let tree = rast::program(&prog);
            // one statement per line, no blocks: statement i is on line i + 1
            let due_lines: Vec<u32> = tree.iter().enumerate().filter(|(_, s)| reference_predicate(s).0.is_some()).map(|(i, _)| i as u32 + 1).collect();
            let own: Vec<rrss::linter::Diag> = {
                use rrss::analysis::visit::VisitProgram;
                match rrss::linter::passes::BoringAssignmentPass.visit_program(&prog) {
                    Ok(rrss::linter::ListBuilder::One(d)) => vec![d],
                    Ok(rrss::linter::ListBuilder::List(v)) => v,
                    Ok(rrss::linter::ListBuilder::Empty) => Vec::new(),
                    Err(()) => {
                        ctx.violation("missing-diagnostic", format!("the constant-assignment pass gave up on the program (Err) — {:?}", text));
                        return;
                    }
                }
            };
            let result = rrss::linter::standard_linter().run(&prog);
            ctx.observe_str(&format!("{}", result));
            let mut got: Vec<u32> = own.iter().map(|d| d.line).collect();
            got.sort();
            if got != due_lines {
                ctx.violation("missing-diagnostic", format!("constant-assignment diagnostics are due on lines {:?} but the pass reports lines {:?} — {:?}", due_lines, got, text));
                return;
            }
            let in_result = own.iter().filter(|o| result.diags.iter().any(|d| d == *o)).count();
            if in_result != own.len() {
                ctx.violation("missing-diagnostic", format!("the linter result lacks {} of the {} diagnostics of the constant-assignment pass — {:?}: {}", own.len() - in_result, own.len(), text, result));
            }
            return;
        }
        let (text, line, _) = self.text(idx);
        ctx.case_text(&text);
        let prog = match rrss::frontend::parser::parse(&text) {
            Ok(p) => p,
            Err(_) => {
                // e.g. `it is "a\nb"` forms that the grammar does not accept in this slot
                ctx.count("rejected_by_parser");
                ctx.observe_str("rejected");
                return;
            }
        };
        ctx.nontrivial();
        let tree = rast::program(&prog);
        let target = match find_target(&tree) {
            Some(t) => t,
            None => {
                ctx.count("no_assignment_in_tree");
                return;
            }
        };
        let (due, plain_target, is_push) = reference_predicate(target);
        let before = format!("{:?}", prog);
        let result = rrss::linter::standard_linter().run(&prog);
        if format!("{:?}", prog) != before {
            ctx.violation("program-modified", "linting changed the program".into());
        }
        // the diagnostics of the constant-assignment pass, identified by running that pass alone
        // (not by their wording); the full linter must contain exactly these
        let own: Vec<rrss::linter::Diag> = {
            use rrss::analysis::visit::VisitProgram;
            match rrss::linter::passes::BoringAssignmentPass.visit_program(&prog) {
                Ok(rrss::linter::ListBuilder::One(d)) => vec![d],
                Ok(rrss::linter::ListBuilder::List(v)) => v,
                _ => Vec::new(),
            }
        };
        let boring: Vec<&rrss::linter::Diag> = result.diags.iter().filter(|d| own.iter().any(|o| o == *d)).collect();
        if boring.len() != own.len() {
            ctx.violation("missing-diagnostic", format!("the linter result lacks diagnostics of the constant-assignment pass: pass alone {:?}, linter {} — {:?}", own.iter().map(|d| &d.issue).collect::<Vec<_>>(), result, text));
            return;
        }
        ctx.observe_str(&format!("{}", result));
        match (&due, boring.len()) {
            (None, 0) => {
                ctx.count("no_diagnostic_due");
                return;
            }
            (None, n) => {
                ctx.violation("spurious-diagnostic", format!("{} constant-assignment diagnostic(s) reported but none is due for {:?} — {:?}: {}", n, target, text, result));
                return;
            }
            (Some(d), 0) => {
                ctx.violation("missing-diagnostic", format!("the assignment {:?} has the constant right-hand side {:?} but no diagnostic was reported — {:?}", target, d, text));
                return;
            }
            (Some(_), 1) => {}
            (Some(_), n) => {
                ctx.violation("spurious-diagnostic", format!("{} diagnostics for one assignment — {:?}: {}", n, text, result));
                return;
            }
        }
        ctx.count("diagnostic_due");
        let diag = boring[0];
        let due = due.unwrap();
        if diag.line != line {
            ctx.violation("wrong-line", format!("the assignment is on line {} but the diagnostic says line {} — {:?}", line, diag.line, text));
        }
        let quoted = backticked(&diag.issue);
        let value_ok = quoted.iter().any(|q| match &due {
            Due::Num(n) => q.parse::<f64>().map_or(false, |v| v.to_bits() == n.to_bits() || (v.is_nan() && n.is_nan()) || (v == *n)),
            Due::Str(s) => *q == format!("\"{}\"", s) || q == s,
        });
        if !value_ok {
            ctx.violation("wrong-issue-text", format!("the issue should quote the value {:?}: {:?} — {:?}", due, diag.issue, text));
        }
        if let Some(t) = &plain_target {
            if !quoted.iter().any(|q| q == t) {
                ctx.violation("wrong-issue-text", format!("the issue should name the target `{}`: {:?}", t, diag.issue));
            }
        }
        // suggestions
        let spellable = match &due {
            Due::Num(n) => n.is_finite() && !(n.is_sign_negative()),
            Due::Str(s) => !s.contains('\n'),
        };
        for sug in &diag.suggestions {
            let payload = match backticked(sug).into_iter().next() {
                Some(p) => p,
                None => continue,
            };
            if !spellable {
                if payload.contains('*') || payload.contains(" says ") {
                    ctx.violation("misleading-suggestion", format!("the value {:?} has no poetic spelling but the suggestion is {:?} — {:?}", due, truncate_str(&payload, 120), text));
                }
                continue;
            }
            match &due {
                Due::Num(n) => {
                    // the starred words spell the digits of the value
                    let stars: String = payload.chars().filter(|c| *c == '*' || *c == '.' || *c == ' ').collect();
                    let mut numeral = String::new();
                    for wd in stars.split(' ').filter(|w| !w.is_empty()) {
                        let k = wd.chars().filter(|c| *c == '*').count();
                        if k > 0 {
                            numeral.push(char::from(b'0' + (k % 10) as u8));
                        }
                        if wd.contains('.') {
                            numeral.push('.');
                        }
                    }
                    let spelled = if numeral.is_empty() {
                        f64::NAN
                    } else {
                        let mut t = numeral.clone();
                        if t.starts_with('.') {
                            t.insert(0, '0');
                        }
                        if t.ends_with('.') {
                            t.push('0');
                        }
                        t.parse::<f64>().unwrap_or(f64::NAN)
                    };
                    if spelled != *n {
                        ctx.violation("wrong-suggestion", format!("the starred words spell {} but the reported value is {:?} — suggestion {:?}", numeral, n, truncate_str(&payload, 160)));
                        continue;
                    }
                    if let Some(t) = &plain_target {
                        let line_text = payload.replace('*', "a");
                        let probe = if is_push { format!("{}\nsay {} at 0\n", line_text, t) } else { format!("{}\nsay {}\n", line_text, t) };
                        let r = crate::subject::exec_text(&probe, b"");
                        let digits = numeral.chars().filter(|c| c.is_ascii_digit()).count();
                        let tol = if digits <= 7 { 4 } else { 64 };
                        let got = r.stdout_str().trim_end().parse::<f64>();
                        match (r.parse_error.is_none() && r.result.is_ok(), got) {
                            (true, Ok(v)) if ulps(v, *n) <= tol => ctx.count("suggestion_round_trips"),
                            _ => ctx.violation("suggestion-not-equivalent", format!("the suggested line {:?} does not give `{}` the value {:?}: {}", truncate_str(&line_text, 160), t, n, r.observe())),
                        }
                    }
                }
                Due::Str(s) => {
                    if let Some(t) = &plain_target {
                        let probe = format!("{}\nsay {}\n", payload, t);
                        let r = crate::subject::exec_text(&probe, b"");
                        if r.parse_error.is_some() || r.result.is_err() || r.stdout_str() != format!("{}\n", s) {
                            ctx.violation("suggestion-not-equivalent", format!("the suggested line {:?} does not give `{}` the value {:?}: {}", payload, t, s, r.observe()));
                        } else {
                            ctx.count("suggestion_round_trips");
                        }
                    }
                }
            }
        }
        if spellable && diag.suggestions.is_empty() {
            ctx.count("due_without_suggestion");
        }
    }
    fn static_coverage(&self) -> Value {
        json!({"forms": FORMS, "targets": TARGETS, "right_hand_sides": RHS, "positions": CONTEXTS.len()})
    }
}

fn truncate_str(s: &str, n: usize) -> String {
    crate::engine::orch::truncate(s, n)
}

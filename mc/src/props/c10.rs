//! C10 — same program and input give the same output, result and messages every time.
//! Every program is executed under many hash seeds (each run in a fresh thread whose RandomState
//! keys the harness dictates through the interposed getrandom); the dictionary is read back after
//! each run to learn the actual iteration order, and seeds are added until all k! orders of the
//! dictionary have been exercised.
use super::corpus;
use crate::engine::seed::with_seed;
use crate::engine::space::Space;
use crate::engine::*;
use serde_json::{json, Value};
use std::collections::BTreeSet;

pub const DEF: PropDef = PropDef {
    id: "C10",
    level: "exploration",
    rule: "all programs that build a dictionary from every ordered selection of k=2 keys, of k=3 keys (quick: out of the first 7 keys and, separately, out of the 5 number-like and empty string keys; thorough: all, and k=4) out of {\"p\",\"q\",\"r\",true,null,mysterious,\"true\",\"null\",\"9\",\"10\",\"1a\",\"\"} and then apply one of 49 operations (join with/without delimiter, join with a non-string value at each key position, print, compare, copy, every erroring statement whose message renders the array, the array as delimiter / radix / key / callee / element of another array), plus a parse/lint/runtime-error corpus; plus the confusable-keys family (pairs / triples of keys that truncation at 7..1000 characters, case folding, trimming, normalisation, numeric reading, escaping or splitting a rendered entry at `: ` / `, ` would merge, every insertion order); plus histories (all ordered pairs of 70 programs (incl. tiny programs whose words are aligned but differ in being keywords) copied into one reused buffer and run one after the other on one thread: the second must behave as it does alone); each program is run under hash seeds 0,1,2,... in fresh threads until every one of the k! iteration orders of its dictionary has been observed (cap 64 / 600 seeds); stdout, result, error text, parse errors and lint reports must be byte-identical across all runs; non-trivial = at least two different iteration orders were actually exercised for the program; distinct = distinct program text",
    assumptions: &[
        "seed control relies on std resolving getrandom through a weak symbol; ./check selftest fails loudly if the same seed stops giving the same order or different seeds stop giving different orders",
        "a dictionary whose orders were not all reached within the seed cap is reported in the evidence as partially covered",
    ],
    build,
    exhaustive: true,
};

pub const KEYS: &[&str] = &["\"p\"", "\"q\"", "\"r\"", "true", "null", "mysterious", "\"true\"", "\"null\"", "\"9\"", "\"10\"", "\"1a\"", "\"\""];

pub const OPS: &[&str] = &[
    "join x\nsay x\n",
    "join x with \"-\"\nsay x\n",
    "join x into y\nsay y\nsay x\n",
    "say x\nsay x is x\n",
    "put x into y\nsay y is x\njoin y\nsay y\n",
    "let x at @K0 be 7\njoin x\n",
    "let x at @K1 be null\njoin x with \",\"\n",
    "let x at @KL be x\njoin x\n",
    "say x at x\n",
    "let x at x be 1\n",
    "cut x\n",
    "cast x\n",
    "turn up x\n",
    "say -x\n",
    "build x up\n",
    "rock y with x, 1\njoin y\n",
    "say x < x\n",
    "cast x into y with 2\n",
    "put 1 into y\nlet y at x be 2\n",
    "@REBUILD\nsay x is y\nsay y is x\nsay x isnt y\nlet y at @K0 be 1\nsay x is y\n",
    "@REBUILD\nrock z with x\nrock u with y\nsay z is u\nsay u at 0 is x\n",
    "turn up x\n",
    "say x at 0 at 0\n",
    "@ALLNUM\njoin x\n",
    "@ALLNUM\njoin x with \",\"\n",
    "let x at @K0 be 7\nlet x at @KL be null\njoin x\n",
    "rock x with \"s\"\nlet x at @K0 be 7\nlet x at @K1 be 8\njoin x\n",
    // the dictionary in every other operand slot of a statement that can fail (the message may render it)
    "cut \"abc\" into y with x\n",
    "rock y with \"a\", \"b\"\njoin y with x\n",
    "cast \"12\" into y with x\n",
    "say \"s\" at x\n",
    "say 5 at x\n",
    "say x taking 1\n",
    "put x into y\nknock y down\n",
    "put \"s\" into y\nlet y at x be 1\n",
    "say \"s\" < x\nsay x < \"s\"\n",
    "say mysterious < x\n",
    "say x < mysterious\n",
    "rock y with x\ncut y\n",
    "rock y with x\nsay y at y\n",
    "rock y with \"a\", x\njoin y\n",
    "let y at \"n\" be x\nsay y at y\n",
    "turn down x\n",
    "turn round x\n",
    "knock x down\n",
    "roll x at \"zz\"\n",
    "roll x into y\nsay y\nsay x\njoin x\n",
    "say roll x\nsay roll x\nsay x is 0\n",
    "rock x at \"zz\" with 1\njoin x\n",
];

pub struct C10 {
    fams: Vec<(String, Space<(String, usize)>)>,
    seed_cap: u64,
}

fn factorial(k: usize) -> usize {
    (1..=k).product()
}

pub fn dict_programs(k: usize) -> Space<(String, usize)> {
    dict_programs_over(k, KEYS.len())
}

/// dictionaries over the first `nkeys` keys of KEYS
pub fn dict_programs_over(k: usize, nkeys: usize) -> Space<(String, usize)> {
    // ordered selections of k distinct keys
    let keys: Space<usize> = Space::of((0..nkeys).collect());
    let sel = keys.seq_exact(k).filter_collect(|v| {
        let mut s = v.clone();
        s.sort();
        s.dedup();
        s.len() == v.len()
    });
    let ops: Space<&'static str> = Space::of(OPS.to_vec());
    sel.product(&ops, move |ks, op| dict_program_text(&ks, op))
}

fn dict_program_text(ks: &[usize], op: &str) -> (String, usize) {
    let k = ks.len();
    {
        let mut t = String::new();
        for (i, key) in ks.iter().enumerate() {
            t.push_str(&format!("let x at {} be \"v{}\"\n", KEYS[*key], i));
        }
        t.push_str("put x into dd\n");
        let allnum: String = ks.iter().enumerate().map(|(i, key)| format!("let x at {} be {}\n", KEYS[*key], i + 1)).collect::<Vec<_>>().concat();
        let op = op.replace("@ALLNUM\n", &allnum);
        // the same dictionary built separately, keys inserted in the opposite order
        let rebuild: String = ks.iter().enumerate().rev().map(|(i, key)| format!("let y at {} be \"v{}\"\n", KEYS[*key], i)).collect::<Vec<_>>().concat();
        let op = op.replace("@REBUILD\n", &rebuild);
        let op = op.replace("@K0", KEYS[ks[0]]).replace("@K1", KEYS[ks[1]]).replace("@KL", KEYS[ks[ks.len() - 1]]);
        t.push_str(&op);
        (t, k)
    }
}

fn build(tier: Tier) -> Box<dyn Check> {
    let mut fams = vec![("dictionary k=2".to_string(), dict_programs(2)), ("dictionary k=3".to_string(), if tier == Tier::Thorough { dict_programs(3) } else { dict_programs_over(3, 7) })];
    if tier != Tier::Thorough {
        // the quick tier takes its triples from the first seven keys; the number-like and empty string keys
        // (comparators that read them as numbers) get their own triples
        let tail: Vec<usize> = (7..KEYS.len()).collect();
        let sel = Space::of(tail).seq_exact(3).filter_collect(|v| {
            let mut s = v.clone();
            s.sort();
            s.dedup();
            s.len() == v.len()
        });
        let ops: Space<&'static str> = Space::of(OPS.to_vec());
        fams.push(("dictionary k=3, number-like keys".to_string(), sel.product(&ops, move |ks, op| dict_program_text(&ks, op))));
    }
    if tier == Tier::Thorough {
        fams.push(("dictionary k=4".to_string(), dict_programs(4)));
    }
    // corpus: parse errors, lint reports, runtime errors must not depend on the seed either
    let mut corpus: Vec<(String, usize)> = corpus::VALID.iter().map(|s| (s.to_string(), 0)).collect();
    for s in ["say 1\nelse\n", "put 1 into\n", "x is\n", "say x\n", "put 5 into x\nput 5 into x\nsay x at 0\n", "let x at \"a\" be 1\nlet x at \"b\" be 2\nlet x at \"c\" be 3\nsay x plus 1\nsay x at x\n"] {
        corpus.push((s.to_string(), 0));
    }
    fams.push(("corpus".to_string(), Space::of(corpus)));
    // confusable keys: pairs (and one triple) that any lossy treatment of keys — truncation at a length,
    // case folding, trimming, normalisation, numeric reading, escaping — would merge or tie
    let mut conf: Vec<(String, usize)> = Vec::new();
    let mut groups: Vec<Vec<String>> = Vec::new();
    for n in [7usize, 8, 15, 16, 31, 32, 33, 63, 64, 65, 128, 255, 256, 1000] {
        let pre = "a".repeat(n);
        groups.push(vec![format!("\"{}1\"", pre), format!("\"{}2\"", pre)]);
        let pre = "é😀".repeat(n / 2 + 1);
        groups.push(vec![format!("\"{}x\"", pre), format!("\"{}y\"", pre), format!("\"{}\"", pre)]);
    }
    for g in [
        &["\"p\"", "\"P\""][..],
        &["\"p\"", "\"p \"", "\" p\""],
        &["\"é\"", "\"e\u{301}\"", "\"e\""],
        &["\"1\"", "\"1.0\"", "\"01\""],
        &["\"7\"", "\"7.0\"", "\"07\""],
        &["\"7\"", "\" 7\"", "\"7e0\""],
        &["\"0\"", "\"-0\"", "\"0.0\""],
        &["\"true\"", "\"TRUE\"", "true"],
        &["\"a\nb\"", "\"a\"", "\"a\\nb\""],
        &["\"\\\"", "\"\\\\\""],
        &["\"'\"", "\"''\""],
        &["\"ß\"", "\"ss\"", "\"SS\""],
        &["\"İ\"", "\"i\u{307}\"", "\"i\""],
        &["\"\u{0}\"", "\"\"", "\" \""],
        &["\"k\u{feff}\"", "\"k\"", "\"k\u{200b}\""],
        // keys holding the separators a rendering puts between key and value and between entries
        &["\"a: 1\"", "\"a: 2\"", "\"a: 3\""],
        &["\"a, b\"", "\"a, c\"", "\"a\""],
        &["\"a: \"", "\"a\"", "\"a:\""],
    ] {
        groups.push(g.iter().map(|s| s.to_string()).collect());
    }
    for g in &groups {
        let k = g.len();
        // every insertion order of the group
        let mut perms: Vec<Vec<usize>> = vec![vec![]];
        for _ in 0..k {
            perms = perms.into_iter().flat_map(|p| (0..k).filter(|i| !p.contains(i)).map(|i| { let mut q = p.clone(); q.push(i); q }).collect::<Vec<_>>()).collect();
        }
        for perm in perms {
            let build: String = perm.iter().map(|&i| format!("let x at {} be \"v{}\"\n", g[i], i)).collect();
            for op in ["join x\nsay x\n", "join x with \",\"\nsay x\n", "say x at x\n", "put x into y\njoin y into z\nsay z\nsay x is y\n"] {
                conf.push((format!("{}put x into dd\n{}", build, op), k));
            }
            conf.push((format!("{}put x into dd\nsay x at 0\nsay x at 1\nsay x at 2\nsay x at 7\nsay x at 10\nsay x at 1.0\n", build), k));
            let reads: String = g.iter().map(|key| format!("say x at {}\n", key)).collect();
            conf.push((format!("{}put x into dd\n{}", build, reads), k));
        }
    }
    fams.push(("confusable-keys".to_string(), Space::of(conf)));
    // histories: program p, then program q, on one thread: q must behave as it does alone (no state
    // survives a run: caches, memo tables, scratch buffers, interned names, thread-locals)
    let mut hset: Vec<String> = corpus::VALID.iter().map(|s| s.to_string()).collect();
    for s in ["say 1\nelse\n", "put 1 into\n", "say x\n", "put 5 into x\nput 5 into x\nsay x at 0\n", "let x at \"a\" be 1\nlet x at \"b\" be 2\njoin x\n", "fun takes k\ngive back k\n\nsay fun taking 1\n", "fun takes k\ngive back k plus 1\n\nsay fun taking 1\n", "put 1 into fun\nsay fun taking 1\n", "listen to x\nsay x\n", "say it\n", "put 2 into x\nsay it\n", ""] {
        hset.push(s.to_string());
    }
    // error messages that render deeply nested arrays (anything that counts depth while printing)
    for s in ["let x at \"a\" at \"b\" at \"c\" at \"d\" at \"e\" be 1\nsay x at x\n", "let x at \"a\" at \"b\" at \"c\" at \"d\" be 1\nsay x at x\n", "let x at 0 at 0 at 0 at 0 at 0 at 0 at 0 be 1\ncut x\n"] {
        hset.push(s.to_string());
    }
    // tiny programs whose words sit at the same offsets and have the same lengths but differ in being keywords
    for s in ["break\n", "zebra\n", "zebra is 5\nsay zebra\n", "listen\n", "little\n", "little is 5\nsay little\n", "it\n", "xy\n", "xy is 5\nsay xy\n", "say\n", "sky\n", "say it\n", "say zebra\n", "say break\n", "put zebra into listen\n", "put break into little\n", "if it\nsay xy\n\n", "at xy\nsay it\n\n"] {
        hset.push(s.to_string());
    }
    let hs: Space<usize> = Space::of((0..hset.len()).collect());
    let hset = std::rc::Rc::new(hset);
    let h2 = hset.clone();
    fams.push(("histories".to_string(), hs.seq_exact(2).map(move |v| (format!("{}\u{1}{}", h2[v[0]], h2[v[1]]), usize::MAX))));
    // many keys: the table rehashes on the way (orders are not exhaustible: run under every seed up to the cap)
    let mut many = Vec::new();
    for n in [5usize, 8, 9, 16, 17, 33] {
        let build: String = (0..n).map(|i| format!("let x at \"k{}\" be \"v{}\"\n", (i * 7) % n, i)).collect();
        for op in ["join x\nsay x\n", "join x with \",\"\nsay x\n", "put x into y\nlet y at \"k0\" be 5\nlet y at \"k1\" be 6\njoin y\n", "say x is x\nsay x at x\n", "put x into y\nsay y is x\nlet y at \"new\" be \"w\"\njoin y\nsay y\njoin x\nsay x\n"] {
            many.push((format!("{}put x into dd\n{}", build, op), 0usize));
        }
    }
    fams.push(("many-keys".to_string(), Space::of(many)));
    Box::new(C10 { fams, seed_cap: tier.pick(64, 600) })
}

/// one run under a seed: (observable result, iteration-order signature of the dictionary (read from the untouched copy dd))
fn run_under_seed(text: String, seed: u64) -> Result<(String, String), String> {
    run_history_under_seed(vec![text], seed).map(|mut v| v.pop().unwrap())
}

/// the texts are parsed, linted and executed one after the other on ONE fresh thread
fn run_history_under_seed(texts: Vec<String>, seed: u64) -> Result<Vec<(String, String)>, String> {
    // every text is copied into the same buffer first, so that consecutive programs sit at the same
    // address (a read-eval loop reusing its line buffer): anything remembered by address or offset goes stale
    let r = with_seed(seed, move || {
        let cap = texts.iter().map(|t| t.len()).max().unwrap_or(0) + 1;
        let mut buf = String::with_capacity(cap);
        texts
            .iter()
            .map(|t| {
                buf.clear();
                buf.push_str(t);
                run_one_text(&buf)
            })
            .collect::<Vec<_>>()
    });
    r.map_err(|_| crate::engine::worker::take_panic())
}

fn run_one_text(text: &str) -> (String, String) {
    {
        use rrss::analysis::visit::VisitProgram;
        use rrss::exec::environment::Environment;
        use rrss::exec::exec_stmt::ExecStmt;
        use rrss::frontend::ast::{SimpleIdentifier, VariableName};
        let mut obs = String::new();
        let mut order = String::new();
        match rrss::frontend::parser::parse(text) {
            Err(e) => obs.push_str(&format!("parse-error:{}", e)),
            Ok(p) => {
                let lint = rrss::linter::standard_linter().run(&p);
                obs.push_str(&format!("lint:{}|", lint));
                // and through the function-style entry point of the command-line layer
                obs.push_str(&format!("cli-lint:{}|", rrss::cli::linter::run(text).map(|o| o.to_string()).unwrap_or_else(|_| "error".into())));
                let mut out = Vec::new();
                {
                    let env = Environment::refcell_raw(&b"in\n"[..], &mut out);
                    let res = ExecStmt::new(&env).visit_program(&p);
                    obs.push_str(&match res {
                        Ok(()) => "ok".to_string(),
                        Err(e) => format!("error:{}", e),
                    });
                    if let Ok(v) = env.borrow_mut().lookup_var(&VariableName::Simple(SimpleIdentifier("dd".into()))) {
                        order = format!("{:?}", v);
                    };
                }
                obs.push('|');
                obs.push_str(&String::from_utf8_lossy(&out));
            }
        }
        (obs, order)
    }
}

/// the two results around their first difference
fn diff_context(a: &str, sa: u64, b: &str, sb: u64) -> String {
    let ca: Vec<char> = a.chars().collect();
    let cb: Vec<char> = b.chars().collect();
    let mut i = 0;
    while i < ca.len() && i < cb.len() && ca[i] == cb[i] {
        i += 1;
    }
    let lo = i.saturating_sub(60);
    let xa: String = ca[lo..(i + 60).min(ca.len())].iter().collect();
    let xb: String = cb[lo..(i + 60).min(cb.len())].iter().collect();
    format!("seed {} gives …{:?}…, seed {} gives …{:?}… (first difference at character {})", sa, xa, sb, xb, i)
}

impl Check for C10 {
    fn families(&self) -> Vec<(String, u64)> {
        self.fams.iter().map(|(n, s)| (n.clone(), s.len())).collect()
    }
    fn describe(&self, fam: usize, idx: u64) -> Value {
        json!({ "text": self.fams[fam].1.get(idx).0 })
    }
    fn run_case(&self, fam: usize, idx: u64, ctx: &mut Ctx) {
        let (text, k) = self.fams[fam].1.get(idx);
        ctx.case_text(&text);
        if k == usize::MAX {
            // a history of two programs
            let parts: Vec<String> = text.split('\u{1}').map(|s| s.to_string()).collect();
            ctx.nontrivial();
            for seed in 0..2u64 {
                let both = run_history_under_seed(parts.clone(), seed);
                let alone = run_under_seed(parts[1].clone(), seed);
                ctx.count("cov.runs_under_distinct_seeds");
                match (both, alone) {
                    (Ok(b), Ok(a)) => {
                        ctx.observe_str(&a.0);
                        if b[1].0 != a.0 {
                            ctx.violation("history-dependent", format!("the second program behaves differently after the first one ran on the same thread: {} — history {:?}", diff_context(&a.0, seed, &b[1].0, seed), parts));
                            return;
                        }
                    }
                    (Err(p), _) | (_, Err(p)) => {
                        ctx.violation("panic", format!("{} build panicked in the history {:?}: {}", config_name(), parts, p));
                        return;
                    }
                }
            }
            return;
        }
        let want_orders = if k == 0 { 1 } else { factorial(k) };
        let min_seeds = if self.fams[fam].0 == "many-keys" { self.seed_cap.min(64) } else if k == 0 { 6 } else { 8 };
        let mut orders: BTreeSet<String> = BTreeSet::new();
        let mut first: Option<(String, u64)> = None;
        let mut seed = 0u64;
        let mut reported = false;
        while seed < self.seed_cap && (seed < min_seeds || orders.len() < want_orders) {
            match run_under_seed(text.clone(), seed) {
                Err(p) => {
                    ctx.violation("panic", format!("{} build panicked under hash seed {}: {}", config_name(), seed, p));
                    return;
                }
                Ok((obs, order)) => {
                    orders.insert(order);
                    match &first {
                        None => first = Some((obs, seed)),
                        Some((o0, s0)) => {
                            if *o0 != obs && !reported {
                                reported = true;
                                ctx.violation(
                                    "seed-dependent",
                                    format!("observable result depends on the hash seed: {} — program {:?}", diff_context(o0, *s0, &obs, seed), text),
                                );
                            }
                        }
                    }
                }
            }
            ctx.count("cov.runs_under_distinct_seeds");
            seed += 1;
        }
        if let Some((o, _)) = &first {
            ctx.observe_str(o);
        }
        if k > 0 {
            if orders.len() >= 2 {
                ctx.nontrivial();
            }
            if orders.len() == want_orders {
                ctx.count(&format!("dictionaries_k{}_with_all_{}_orders_exercised", k, want_orders));
            } else {
                ctx.count(&format!("dictionaries_k{}_partially_covered", k));
                ctx.note(format!("only {} of {} iteration orders reached within {} seeds for {:?}", orders.len(), want_orders, self.seed_cap, text));
            }
        } else {
            ctx.nontrivial();
        }
    }
    fn static_coverage(&self) -> Value {
        json!({"keys": KEYS, "operations": OPS, "seed_cap": self.seed_cap})
    }
}

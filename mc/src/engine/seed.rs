//! Hash-seed control without touching rrss: std resolves `getrandom` through a weak symbol, so
//! defining it here decides the `RandomState` keys of every thread of this binary. Keys are drawn
//! once per thread (then incremented per map), therefore a run under seed s = a fresh thread
//! started after `set_seed(s)`.
use std::sync::atomic::{AtomicU64, Ordering};

static SEED: AtomicU64 = AtomicU64::new(0x5eed);
static CALLS: AtomicU64 = AtomicU64::new(0);

pub fn set_seed(s: u64) {
    SEED.store(s, Ordering::SeqCst);
}

pub fn calls() -> u64 {
    CALLS.load(Ordering::SeqCst)
}

fn splitmix(x: &mut u64) -> u64 {
    *x = x.wrapping_add(0x9E3779B97F4A7C15);
    let mut z = *x;
    z = (z ^ (z >> 30)).wrapping_mul(0xBF58476D1CE4E5B9);
    z = (z ^ (z >> 27)).wrapping_mul(0x94D049BB133111EB);
    z ^ (z >> 31)
}

#[no_mangle]
pub unsafe extern "C" fn getrandom(buf: *mut u8, len: usize, _flags: u32) -> isize {
    CALLS.fetch_add(1, Ordering::SeqCst);
    let mut st = SEED.load(Ordering::SeqCst);
    let mut i = 0;
    while i < len {
        let w = splitmix(&mut st).to_le_bytes();
        let mut j = 0;
        while j < 8 && i < len {
            *buf.add(i) = w[j];
            i += 1;
            j += 1;
        }
    }
    len as isize
}

/// Run f in a fresh thread whose hash maps are keyed by `seed`.
pub fn with_seed<T: Send + 'static>(seed: u64, f: impl FnOnce() -> T + Send + 'static) -> std::thread::Result<T> {
    set_seed(seed);
    let h = std::thread::Builder::new()
        .stack_size(8 << 20)
        .spawn(f)
        .expect("spawn");
    h.join()
}

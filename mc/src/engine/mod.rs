//! Core abstractions: a property check is a list of finite case families; a case is addressed by
//! (family, index); a worker sweeps a shard of the global case numbering and reports counters,
//! per-chunk observation hashes (compared between build configurations) and violations.
pub mod orch;
pub mod seed;
pub mod space;
pub mod worker;

use serde_json::{json, Value};
use std::collections::{BTreeMap, BTreeSet};

#[derive(Clone, Copy, Debug, PartialEq, Eq)]
pub enum Tier {
    Quick,
    Thorough,
}

impl Tier {
    pub fn name(self) -> &'static str {
        match self {
            Tier::Quick => "quick",
            Tier::Thorough => "thorough",
        }
    }
    pub fn parse(s: &str) -> Option<Tier> {
        match s {
            "quick" => Some(Tier::Quick),
            "thorough" => Some(Tier::Thorough),
            _ => None,
        }
    }
    pub fn pick<T>(self, q: T, t: T) -> T {
        match self {
            Tier::Quick => q,
            Tier::Thorough => t,
        }
    }
}

/// which build of the harness (and therefore of rrss) is running
pub fn config_name() -> &'static str {
    if cfg!(debug_assertions) {
        "checked"
    } else {
        "release"
    }
}

pub const CHUNK: u64 = 1024;

pub struct Violation {
    pub kind: String,
    pub detail: String,
}

/// Per-case reporting interface handed to `Check::run_case`.
pub struct Ctx {
    pub counters: BTreeMap<String, u64>,
    pub violations: Vec<Violation>,
    pub observation: Vec<u8>,
    pub nontrivial: bool,
    pub keep_observation: bool,
    pub sets: BTreeMap<String, BTreeSet<String>>,
    pub notes: Vec<String>,
    pub case_key: Option<u64>,
}

impl Ctx {
    pub fn new() -> Self {
        Ctx {
            counters: BTreeMap::new(),
            violations: Vec::new(),
            observation: Vec::new(),
            nontrivial: false,
            keep_observation: false,
            sets: BTreeMap::new(),
            notes: Vec::new(),
            case_key: None,
        }
    }
    /// identity of the case for the distinct count (default: its index)
    pub fn case_text(&mut self, s: &str) {
        self.case_key = Some(fnv(s.as_bytes()));
    }
    pub fn count(&mut self, key: &str) {
        self.add(key, 1)
    }
    pub fn add(&mut self, key: &str, n: u64) {
        if let Some(c) = self.counters.get_mut(key) {
            *c += n;
        } else {
            self.counters.insert(key.to_string(), n);
        }
    }
    /// record a member of a (small) coverage set, e.g. error variants reached
    pub fn cover(&mut self, set: &str, member: &str) {
        let s = self.sets.entry(set.to_string()).or_default();
        if s.len() < 4096 && !s.contains(member) {
            s.insert(member.to_string());
        }
    }
    /// Feed what this case made the subject do (stdout, result, message, token stream ...).
    /// The bytes are hashed per chunk and compared between the checked and the release build.
    pub fn observe(&mut self, bytes: &[u8]) {
        self.observation.extend_from_slice(bytes);
        self.observation.push(0x1f);
    }
    pub fn observe_str(&mut self, s: &str) {
        self.observe(s.as_bytes())
    }
    pub fn nontrivial(&mut self) {
        self.nontrivial = true;
    }
    pub fn violation(&mut self, kind: &str, detail: String) {
        self.violations.push(Violation { kind: kind.to_string(), detail });
    }
    pub fn note(&mut self, s: String) {
        if self.notes.len() < 64 {
            self.notes.push(s);
        }
    }
}

pub trait Check {
    /// (family name, number of cases); fixed for the lifetime of the object
    fn families(&self) -> Vec<(String, u64)>;
    fn run_case(&self, fam: usize, idx: u64, ctx: &mut Ctx);
    /// human-readable form of the case (the input text, program, history, schedule ...)
    fn describe(&self, fam: usize, idx: u64) -> Value;
    /// extra evidence keys computed without running cases (alphabets, bounds)
    fn static_coverage(&self) -> Value {
        json!({})
    }
}

pub struct PropDef {
    pub id: &'static str,
    pub level: &'static str,
    pub rule: &'static str,
    pub assumptions: &'static [&'static str],
    pub build: fn(Tier) -> Box<dyn Check>,
    /// true when the enumeration visits every case of a finite space completely
    pub exhaustive: bool,
}

pub fn fnv(bytes: &[u8]) -> u64 {
    let mut h = 0xcbf29ce484222325u64;
    for b in bytes {
        h ^= *b as u64;
        h = h.wrapping_mul(0x100000001b3);
    }
    h
}

pub fn mix(a: u64, b: u64) -> u64 {
    let mut x = a ^ b.wrapping_mul(0x9E3779B97F4A7C15);
    x ^= x >> 30;
    x = x.wrapping_mul(0xBF58476D1CE4E5B9);
    x ^= x >> 27;
    x = x.wrapping_mul(0x94D049BB133111EB);
    x ^ (x >> 31)
}

pub struct Layout {
    pub fams: Vec<(String, u64)>,
    pub offs: Vec<u64>,
    pub total: u64,
}

impl Layout {
    pub fn new(fams: Vec<(String, u64)>) -> Self {
        let mut offs = Vec::new();
        let mut total = 0u64;
        for (_, n) in &fams {
            offs.push(total);
            total += n;
        }
        Layout { fams, offs, total }
    }
    pub fn locate(&self, g: u64) -> (usize, u64) {
        let k = match self.offs.binary_search(&g) {
            Ok(mut k) => {
                // skip empty families
                while self.fams[k].1 == 0 {
                    k += 1;
                }
                k
            }
            Err(k) => k - 1,
        };
        (k, g - self.offs[k])
    }
    pub fn chunks(&self) -> u64 {
        (self.total + CHUNK - 1) / CHUNK
    }
}

//! C02 — every spelling of a program parses to the same syntax tree.
use crate::engine::space::Space;
use crate::engine::*;
use crate::refmodel::grammar::*;
use crate::refmodel::rast::{self, *};
use serde_json::{json, Value};
use std::rc::Rc;

pub const DEF: PropDef = PropDef {
    id: "C02",
    level: "exploration",
    rule: "(text, expected tree) pairs from a reference grammar that never calls the rrss parser: (1) every chain of 2 and 3 binary operators over 18 operator spellings with the tree from the precedence ladder; (2) unary prefixes in every operand position; (3) list operands at every precedence level (single operator, last-operator-takes-the-list, elements that are a higher- or lower-precedence operation, both separators); (4) primaries: subscript chains, calls with 1..3 arguments x 8 separators (incl. re-cased ones) x argument shapes, nested calls, roll, literals of every kind, 10 numeral spellings, 7 string spellings, the three name kinds (proper names also with non-ASCII capitals, common names whose noun is a literal word); (5) all statement kinds with every slot filled from a 14-shape expression set, in three contexts (top level, inside if, inside a function body); (6) every block-nesting shape over {simple, if, if-else, while, until, function} up to the node bound, closed by blank lines or by end of input; (7) on every base program of (4)-(6): every single departure from canonical spelling (each keyword x every alias as listed / upper case / capitalised, 3 case variants and all 2^n casings for n<=4; each gap x 28 noise kinds (blanks, tabs, ignorable punctuation, one / two / three comments in one gap, multi-line comments, non-ASCII white space); trailing punctuation; missing final newline; whole-program respellings: CR LF line ends, tabs or NBSP for every space, all keywords upper / title case, double spaces, blank lines carrying blanks, indentation on every line), (thorough) all pairs of departures on the statement corpus; oracle: RAst(parse(text)) == expected; non-trivial = all cases (each compares a full tree); distinct = distinct text",
    assumptions: &[
        "reference grammar (refmodel/grammar.rs): precedence ladder logical < comparison < term < factor < unary < primary, left-associative folds, the last operator before a comma takes the list, one blank line closes one block, else closes a then-block, an if-else ends a function body",
        "identifier spelling is part of the tree (names are compared as written), so identifier case is varied by C15, not here; poetic literals are content, varied by C11; corners the property does not determine (U-lists, U-emptyblock) are not generated",
    ],
    build,
    exhaustive: true,
};

type Base = (Vec<Tk>, Vec<Stmt>);

pub const NOISE: &[&str] = &["  ", "\t", " ! ", " ; ", " ? ", " : ", " # ", " ) ", " = ", " ' ", " (c) ", " (a\nb) ", " ~ ", " [ ", "!", ";", "\u{a0}", " \r", "(c)", " %  @ ", " (a) (b) ", "(a)(b)", " (a)!(b) (c) ", " (a\nb)(c) ", " ((a) ", " ; ; ", "\u{2003}", " \u{c} "];

fn nm(n: &str) -> TE {
    pe(name_simple(n))
}

fn chain_case(ops: &[OpSpell]) -> Option<Base> {
    let names = ["x", "y", "z", "u"];
    let mut toks = vec![kw("say")];
    let mut operands = Vec::new();
    let mut opl = Vec::new();
    for i in 0..=ops.len() {
        let (t, e) = nm(names[i]);
        if i > 0 {
            toks.extend(ops[i - 1].toks.clone());
            opl.push((ops[i - 1].op, ops[i - 1].fam, vec![]));
        }
        toks.extend(t);
        operands.push(e);
    }
    toks.push(nl());
    let tree = climb(operands, &opl)?;
    Some((toks, vec![Stmt::Output(tree)]))
}

fn list_taking(o: &OpSpell) -> bool {
    o.fam != Fam::IsCmp
}

fn lvl(f: Fam) -> u8 {
    match f {
        Fam::Logic => 1,
        Fam::IsCmp | Fam::SymCmp => 2,
        Fam::Add => 3,
        Fam::Mul => 4,
    }
}

fn expr_cases() -> Vec<Base> {
    let ops = op_spellings();
    let mut v: Vec<Base> = Vec::new();
    // (1) chains of 2 and 3 operators
    for a in &ops {
        if let Some(b) = chain_case(&[a.clone()]) {
            v.push(b);
        }
        for b in &ops {
            if let Some(c) = chain_case(&[a.clone(), b.clone()]) {
                v.push(c);
            }
            for c in &ops {
                if let Some(d) = chain_case(&[a.clone(), b.clone(), c.clone()]) {
                    v.push(d);
                }
            }
        }
    }
    // (2) unary prefixes in every operand position of every pair
    for a in &ops {
        for b in &ops {
            for pos in 0..3 {
                for u in [UnOp::Not, UnOp::Neg] {
                    let names = ["x", "y", "z"];
                    let mut toks = vec![kw("say")];
                    let mut operands = Vec::new();
                    for i in 0..3 {
                        let mut e = nm(names[i]);
                        if i == pos {
                            e = un(u, e);
                        }
                        if i == 1 {
                            toks.extend(a.toks.clone());
                        }
                        if i == 2 {
                            toks.extend(b.toks.clone());
                        }
                        toks.extend(e.0);
                        operands.push(e.1);
                    }
                    toks.push(nl());
                    // `x is not y` is the inequality, not `x is (not y)`
                    if u == UnOp::Not && ((pos == 1 && a.label == "is") || (pos == 2 && b.label == "is")) {
                        continue;
                    }
                    if let Some(tree) = climb(operands, &[(a.op, a.fam, vec![]), (b.op, b.fam, vec![])]) {
                        v.push((toks, vec![Stmt::Output(tree)]));
                    }
                }
            }
        }
    }
    // nested unary
    for (t, e) in [un(UnOp::Not, un(UnOp::Not, nm("x"))), un(UnOp::Neg, un(UnOp::Neg, nm("x"))), un(UnOp::Not, un(UnOp::Neg, pe(num("1")))), un(UnOp::Neg, un(UnOp::Not, nm("x")))] {
        let mut toks = vec![kw("say")];
        toks.extend(t);
        toks.push(nl());
        v.push((toks, vec![Stmt::Output(e)]));
    }
    // (3) lists
    for a in ops.iter().filter(|o| list_taking(o)) {
        for n in 1..=2usize {
            for sep in [",", ", and"] {
                // L1: x OP y, z[, u]
                let mut toks = vec![kw("say")];
                toks.extend(nm("x").0);
                toks.extend(a.toks.clone());
                toks.extend(nm("y").0);
                let mut extras = Vec::new();
                for k in 0..n {
                    toks.extend(sep_tokens(sep));
                    let e = nm(["z", "u"][k]);
                    toks.extend(e.0);
                    extras.push(e.1);
                }
                toks.push(nl());
                let tree = climb(vec![nm("x").1, nm("y").1], &[(a.op, a.fam, extras)]).unwrap();
                v.push((toks, vec![Stmt::Output(tree)]));
            }
        }
    }
    for a in &ops {
        for b in ops.iter().filter(|o| list_taking(o)) {
            // L2: x A y B z, u   — the last operator takes the list
            let mut toks = vec![kw("say")];
            toks.extend(nm("x").0);
            toks.extend(a.toks.clone());
            toks.extend(nm("y").0);
            toks.extend(b.toks.clone());
            toks.extend(nm("z").0);
            toks.push(comma());
            toks.extend(nm("u").0);
            toks.push(nl());
            if let Some(tree) = climb(vec![nm("x").1, nm("y").1, nm("z").1], &[(a.op, a.fam, vec![]), (b.op, b.fam, vec![nm("u").1])]) {
                v.push((toks, vec![Stmt::Output(tree)]));
            }
        }
    }
    for a in ops.iter().filter(|o| list_taking(o)) {
        for b in &ops {
            // L3 / L4: x A y, z B u
            let mut toks = vec![kw("say")];
            toks.extend(nm("x").0);
            toks.extend(a.toks.clone());
            toks.extend(nm("y").0);
            toks.push(comma());
            toks.extend(nm("z").0);
            toks.extend(b.toks.clone());
            toks.extend(nm("u").0);
            toks.push(nl());
            let tree = if lvl(b.fam) > lvl(a.fam) {
                // the element is a single higher-precedence operation
                Expr::Bin(a.op, Box::new(nm("x").1), vec![nm("y").1, Expr::Bin(b.op, Box::new(nm("z").1), vec![nm("u").1])])
            } else {
                if b.fam != a.fam && lvl(b.fam) == lvl(a.fam) {
                    continue; // mixed comparison families
                }
                Expr::Bin(b.op, Box::new(Expr::Bin(a.op, Box::new(nm("x").1), vec![nm("y").1, nm("z").1])), vec![nm("u").1])
            };
            v.push((toks, vec![Stmt::Output(tree)]));
        }
    }
    v
}

fn say_case(e: TE) -> Base {
    let (t, s) = s_say(e);
    let mut t = t;
    t.push(nl());
    (t, vec![s])
}

fn primary_cases() -> Vec<Base> {
    let mut v = Vec::new();
    // literals, numerals, strings, names
    for p in [lit_kw("mysterious"), lit_kw("null"), lit_kw("true"), lit_kw("false"), lit_kw("empty"), pronoun()] {
        v.push(say_case(pe(p)));
    }
    for n in ["0", "1", "007", ".5", "1.", "1e3", "1E2", "0.12345678901234567", "1e400", "12.50"] {
        v.push(say_case(pe(num(n))));
        v.push(say_case(un(UnOp::Neg, pe(num(n)))));
    }
    // number literals of every size, in an output, an assignment, a poetic slot, a list
    for n in crate::refmodel::grammar::numerals() {
        v.push(say_case(pe(num(&n))));
        v.extend(finish(&[TSB::Simple(s_put(pe(num(&n)), name_simple("x")))]));
        v.extend(finish(&[TSB::Simple(s_poetic_expr(name_simple("x"), pe(num(&n))))]));
        v.extend(finish(&[TSB::Simple(s_rock(name_simple("x"), vec![pe(num(&n)), pe(num(&n))]))]));
    }
    for s in ["", " ", "a b", "!,.;", "é", "a\nb", "it's (not) a comment"] {
        v.push(say_case(pe(string(s))));
    }
    for p in [name_simple("x"), name_simple("Zed"), name_common("the", "zed"), name_common("my", "Zed"), name_common("A", "yod"), name_proper(&["Zed", "Yod"]), name_proper(&["Zed", "Yod", "Qux"]), name_proper(&["Zed", "Élan"]), name_proper(&["Ångström", "Über", "Yod"]), name_common("my", "right"), name_common("the", "silence"), name_common("Your", "mysterious")] {
        v.push(say_case(pe(p.clone())));
        v.push(say_case(pe(sub(p.clone(), num("0")))));
        v.push(say_case(pe(sub(name_simple("x"), p))));
    }
    // subscript chains
    v.push(say_case(pe(sub(sub(name_simple("x"), num("0")), num("1")))));
    v.push(say_case(pe(sub(sub(sub(name_simple("x"), name_simple("y")), string("k")), lit_kw("true")))));
    v.push(say_case(pe(sub(name_simple("x"), roll(name_simple("y"))))));
    v.push(say_case(pe(roll(name_simple("x")))));
    v.push(say_case(pe(roll(sub(name_simple("x"), num("0"))))));
    v.push(say_case(pe(roll(roll(name_simple("x"))))));
    // subscript binds tighter than any operator
    for o in op_spellings() {
        let (mut t, s) = s_say(pe(sub(name_simple("x"), num("0"))));
        let _ = s;
        t.extend(o.toks.clone());
        let r = sub(name_simple("y"), num("1"));
        t.extend(r.0);
        t.push(nl());
        v.push((t, vec![Stmt::Output(Expr::Bin(o.op, Box::new(Expr::Prim(sub(name_simple("x"), num("0")).1)), vec![Expr::Prim(r.1)]))]));
    }
    // calls
    let arg_shapes: Vec<TE> = vec![nm("y"), pe(num("1")), pe(string("s")), un(UnOp::Not, nm("y")), un(UnOp::Neg, pe(num("1"))), pe(sub(name_simple("y"), num("0"))), pe(lit_kw("null")), pe(pronoun())];
    for sep in SEPS {
        for n in 1..=3usize {
            for (i, a) in arg_shapes.iter().enumerate() {
                let mut args = vec![a.clone()];
                for k in 1..n {
                    args.push(arg_shapes[(i + k) % arg_shapes.len()].clone());
                }
                v.push(say_case(pe(call("fun", args, sep))));
            }
        }
        // nested call as the last argument; a call as operand of a binary operator
        v.push(say_case(pe(call("fun", vec![nm("y"), pe(call("gun", vec![nm("z")], sep))], sep))));
        let c = call("fun", vec![nm("y"), nm("z")], sep);
        let (mut t, _) = s_say(pe(c.clone()));
        t.push(kw("plus"));
        t.extend(nm("u").0);
        t.push(nl());
        v.push((t, vec![Stmt::Output(Expr::Bin(BinOp::Plus, Box::new(Expr::Prim(c.1)), vec![nm("u").1]))]));
    }
    v.push(say_case(pe(call("fun", vec![pe(call("gun", vec![pe(call("hun", vec![nm("x")], ","))], ","))], ","))));
    v
}

fn exprs() -> Vec<TE> {
    vec![
        pe(num("5")),
        pe(string("s")),
        pe(lit_kw("true")),
        pe(lit_kw("null")),
        pe(lit_kw("mysterious")),
        nm("y"),
        pe(name_common("the", "zed")),
        pe(name_proper(&["Zed", "Yod"])),
        pe(pronoun()),
        un(UnOp::Not, nm("y")),
        {
            let (a, b, c) = (nm("y"), pe(num("1")), pe(num("2")));
            let mut t = a.0;
            t.push(kw("plus"));
            t.extend(b.0);
            t.push(comma());
            t.extend(c.0);
            (t, Expr::Bin(BinOp::Plus, Box::new(a.1), vec![b.1, c.1]))
        },
        pe(sub(sub(name_simple("y"), num("0")), num("1"))),
        pe(call("fun", vec![nm("y"), pe(num("1"))], ",")),
        pe(roll(name_simple("y"))),
        {
            let (a, b) = (nm("y"), nm("z"));
            let mut t = a.0;
            t.extend(vec![kw("is"), kw("greater"), kw("than")]);
            t.extend(b.0);
            (t, Expr::Bin(BinOp::Gt, Box::new(a.1), vec![b.1]))
        },
    ]
}

/// expressions that may stand as an element of a comma list (no top-level list, no call at the end)
fn elem_exprs() -> Vec<TE> {
    vec![pe(num("5")), pe(string("s")), nm("y"), pe(name_common("the", "zed")), pe(pronoun()), un(UnOp::Neg, pe(num("1"))), pe(sub(name_simple("y"), num("0"))), {
        let (a, b) = (nm("y"), pe(num("2")));
        let mut t = a.0;
        t.push(kw("times"));
        t.extend(b.0);
        (t, Expr::Bin(BinOp::Times, Box::new(a.1), vec![b.1]))
    }]
}

fn lhss() -> Vec<TP> {
    vec![name_simple("x"), name_common("my", "zed"), name_proper(&["Zed", "Yod"]), pronoun(), sub(name_simple("x"), num("0")), sub(sub(name_simple("x"), name_simple("y")), string("k"))]
}

fn prims() -> Vec<TP> {
    vec![name_simple("x"), pronoun(), sub(name_simple("x"), num("0")), string("s"), num("5"), call("fun", vec![nm("y")], ","), roll(name_simple("y")), name_proper(&["Zed", "Yod"])]
}

fn simple_statements() -> Vec<TS> {
    let mut v: Vec<TS> = Vec::new();
    for e in exprs() {
        for l in lhss() {
            v.push(s_put(e.clone(), l.clone()));
            v.push(s_let(l.clone(), None, vec![e.clone()]));
        }
        v.push(s_say(e.clone()));
        for f in 0..8 {
            v.push(s_return(e.clone(), f));
        }
        for d in [Dir::Up, Dir::Down, Dir::Nearest] {
            v.push(s_turn(d, e.clone(), true));
        }
    }
    // direction after the operand: the operand must not end where `up`/`down` could be misread
    for e in [nm("y"), pe(name_common("the", "zed")), pe(pronoun()), pe(sub(name_simple("y"), num("0")))] {
        for d in [Dir::Up, Dir::Down, Dir::Nearest] {
            v.push(s_turn(d, e.clone(), false));
        }
    }
    for (op, class) in [(BinOp::Plus, "plus"), (BinOp::Plus, "with"), (BinOp::Minus, "minus"), (BinOp::Times, "times"), (BinOp::Over, "over")] {
        for l in lhss() {
            for e in elem_exprs() {
                v.push(s_let(l.clone(), Some((op, class)), vec![e.clone()]));
            }
            v.push(s_let(l.clone(), Some((op, class)), vec![nm("y"), pe(num("2"))]));
            v.push(s_let(l.clone(), Some((op, class)), vec![nm("y"), pe(num("2")), pe(string("s"))]));
        }
    }
    for l in lhss() {
        v.push(s_poetic_expr(l.clone(), pe(num("5"))));
        v.push(s_poetic_expr(l.clone(), pe(lit_kw("true"))));
        v.push(s_poetic_expr(l.clone(), pe(lit_kw("null"))));
        v.push(s_poetic_expr(l.clone(), pe(string("s"))));
        v.push(s_poetic_expr(l.clone(), un(UnOp::Neg, pe(num("5")))));
        v.push(s_poetic_expr(l.clone(), {
            let (a, b) = (pe(num("5")), nm("y"));
            let mut t = a.0;
            t.push(kw("plus"));
            t.extend(b.0);
            (t, Expr::Bin(BinOp::Plus, Box::new(a.1), vec![b.1]))
        }));
        v.push(s_poetic_num(l.clone(), &["a", "lovely", "day"]));
        v.push(s_poetic_num(l.clone(), &["ice", ".", "cold", "beer"]));
        v.push(s_poetic_str(l.clone(), "hello world"));
        v.push(s_poetic_str(l.clone(), "a, b! (c) \"d\" 12"));
        v.push(s_listen(Some(l.clone())));
        v.push(s_roll(name_simple("y"), Some(l.clone())));
    }
    v.push(s_listen(None));
    for id in [name_simple("x"), name_common("the", "zed"), name_proper(&["Zed", "Yod"]), pronoun()] {
        for n in 1..=3 {
            for c in [false, true] {
                v.push(s_build(id.clone(), n, c));
                v.push(s_knock(id.clone(), n, c));
            }
        }
    }
    for op in [MutOp::Cut, MutOp::Join, MutOp::Cast] {
        for p in prims() {
            let is_ident = matches!(p.1, Prim::Ident(_));
            for d in [None, Some(name_simple("z")), Some(sub(name_simple("z"), num("0"))), Some(pronoun())] {
                if d.is_none() && !is_ident {
                    continue; // refused by the parser (U-inplace-subscript)
                }
                for prm in [None, Some(pe(string(","))), Some(nm("y")), Some({
                    let (a, b) = (nm("y"), pe(num("1")));
                    let mut t = a.0;
                    t.push(kw("plus"));
                    t.extend(b.0);
                    (t, Expr::Bin(BinOp::Plus, Box::new(a.1), vec![b.1]))
                })] {
                    v.push(s_mutation(op, p.clone(), d.clone(), prm));
                }
            }
        }
    }
    for b in [false, true] {
        v.push(s_break(b));
        v.push(s_continue(b));
    }
    for p in prims() {
        v.push(s_rock(p.clone(), vec![]));
        for e in elem_exprs() {
            v.push(s_rock(p.clone(), vec![e.clone()]));
        }
        v.push(s_rock(p.clone(), vec![nm("y"), pe(num("2")), pe(string("s"))]));
        v.push(s_rock(p.clone(), vec![exprs()[12].clone()]));
        v.push(s_rock_like(p.clone(), &["a", "rolling", "stone"]));
        v.push(s_roll(p.clone(), None));
    }
    for sep in SEPS {
        for n in 1..=3 {
            let args: Vec<TE> = vec![nm("y"), pe(num("1")), un(UnOp::Not, nm("z"))][..n].to_vec();
            v.push(s_call("fun", args, sep));
        }
    }
    v
}

fn finish(stmts: &[TSB]) -> Option<Base> {
    lines(stmts)
}

fn statement_cases() -> Vec<Base> {
    let mut v = Vec::new();
    let cond = nm("c");
    for s in simple_statements() {
        // top level; followed by another statement; inside if; inside if-else; inside a function body
        v.extend(finish(&[TSB::Simple(s.clone())]));
        v.extend(finish(&[TSB::Simple(s.clone()), TSB::Simple(s_say(pe(num("9"))))]));
        v.extend(finish(&[TSB::If(cond.clone(), vec![TSB::Simple(s.clone())], None), TSB::Simple(s_say(pe(num("9"))))]));
        v.extend(finish(&[TSB::If(cond.clone(), vec![TSB::Simple(s_say(pe(num("8"))))], Some(vec![TSB::Simple(s.clone())])), TSB::Simple(s_say(pe(num("9"))))]));
        v.extend(finish(&[TSB::Function("fun".into(), vec!["k".into()], ",", vec![TSB::Simple(s.clone())]), TSB::Simple(s_say(pe(num("9"))))]));
        v.extend(finish(&[TSB::While(cond.clone(), vec![TSB::Simple(s_say(pe(num("8")))), TSB::Simple(s.clone())]), TSB::Simple(s_say(pe(num("9"))))]));
        v.extend(finish(&[TSB::Until(cond.clone(), vec![TSB::If(cond.clone(), vec![TSB::Simple(s.clone())], None)]), TSB::Simple(s_say(pe(num("9"))))]));
    }
    // function headers: parameter counts, separators, name kinds are simple here
    for sep in SEPS {
        for n in 1..=3 {
            let params: Vec<String> = ["k", "j", "m"][..n].iter().map(|s| s.to_string()).collect();
            v.extend(finish(&[TSB::Function("fun".into(), params, sep, vec![TSB::Simple(s_return(nm("k"), 2))])]));
        }
    }
    v
}

#[derive(Clone, Debug)]
pub enum Shape {
    S,
    If(Vec<Shape>, Option<Vec<Shape>>),
    While(Vec<Shape>),
    Until(Vec<Shape>),
    Fun(Vec<Shape>),
}

pub fn shape_stmt(n: usize, d: usize, memo: &mut std::collections::HashMap<(usize, usize), Space<Vec<Shape>>>) -> Space<Shape> {
    if n == 0 {
        return Space::empty();
    }
    let mut parts: Vec<Space<Shape>> = Vec::new();
    if n == 1 {
        parts.push(Space::one(Shape::S));
    }
    if d > 0 && n >= 2 {
        let b = shape_block(n - 1, d - 1, memo);
        parts.push(b.map(|x| Shape::If(x, None)));
        parts.push(b.map(Shape::While));
        parts.push(b.map(Shape::Until));
        parts.push(b.map(Shape::Fun));
        for k in 1..(n - 1) {
            let t = shape_block(k, d - 1, memo);
            let e = shape_block(n - 1 - k, d - 1, memo);
            if t.len() > 0 && e.len() > 0 {
                parts.push(t.product(&e, |a, b| Shape::If(a, Some(b))));
            }
        }
    }
    Space::union(parts)
}

pub fn shape_block(n: usize, d: usize, memo: &mut std::collections::HashMap<(usize, usize), Space<Vec<Shape>>>) -> Space<Vec<Shape>> {
    if let Some(s) = memo.get(&(n, d)) {
        return s.clone();
    }
    let mut parts: Vec<Space<Vec<Shape>>> = vec![shape_stmt(n, d, memo).map(|s| vec![s])];
    for a in 1..n {
        let sa = shape_stmt(a, d, memo);
        if sa.len() == 0 {
            continue;
        }
        let sb = shape_stmt(n - a, d, memo);
        if sb.len() > 0 {
            parts.push(sa.product(&sb, |x, y| vec![x, y]));
        }
        for b in 1..(n - a) {
            let sb = shape_stmt(b, d, memo);
            let sc = shape_stmt(n - a - b, d, memo);
            if sb.len() > 0 && sc.len() > 0 {
                parts.push(sa.product(&sb, |x, y| (x, y)).product(&sc, |(x, y), z| vec![x, y, z]));
            }
        }
    }
    let s = Space::union(parts);
    memo.insert((n, d), s.clone());
    s
}

pub fn shape_to_tsb(b: &[Shape], counter: &mut usize) -> Vec<TSB> {
    b.iter()
        .map(|s| {
            *counter += 1;
            let me = *counter;
            match s {
                Shape::S => TSB::Simple(s_say(pe(num(&me.to_string())))),
                Shape::If(t, e) => TSB::If(nm("c"), shape_to_tsb(t, counter), e.as_ref().map(|e| shape_to_tsb(e, counter))),
                Shape::While(b) => TSB::While(nm("c"), shape_to_tsb(b, counter)),
                Shape::Until(b) => TSB::Until(nm("c"), shape_to_tsb(b, counter)),
                Shape::Fun(b) => TSB::Function(format!("fun{}", ["a", "b", "c", "d", "e", "f", "g", "h", "i", "j", "k", "l"][me % 12]), vec!["k".into()], ",", shape_to_tsb(b, counter)),
            }
        })
        .collect()
}

/// one departure from the canonical spelling of a base program
#[derive(Clone, Debug)]
pub enum Dev {
    Alias(usize, usize),
    Case(usize, usize),
    Noise(usize, usize),
    TrailingPunct(usize, usize),
    NoFinalNewline,
    /// whole-program respellings: 0 CR LF line ends, 1 tabs for spaces, 2 NBSP for spaces, 3 all keywords upper case,
    /// 4 all keywords title case, 5 double spaces everywhere, 6 blank lines carry blanks, 7 indentation on every line
    Whole(usize),
    Indent(usize, usize),
    SuffixIs(usize, usize),
    /// trailing punctuation on the last line of a text that has no final newline
    TrailingPunctAtEof(usize, usize),
}

/// alias number a of a keyword class: as listed (a < n), upper case (n <= a < 2n), first letter capital (2n <= a < 3n)
fn alias_spelling(class: &'static str, a: usize) -> String {
    let al = aliases_of(class);
    let w = al[a % al.len()];
    match a / al.len() {
        0 => w.to_string(),
        1 => w.to_uppercase(),
        _ => {
            let mut out = String::new();
            let mut done = false;
            for c in w.chars() {
                if !done && c.is_alphabetic() {
                    out.extend(c.to_uppercase());
                    done = true;
                } else {
                    out.push(c);
                }
            }
            out
        }
    }
}

fn recase(s: &str, mode: usize) -> Option<String> {
    if !s.chars().any(|c| c.is_alphabetic()) {
        return None;
    }
    let n = s.chars().filter(|c| c.is_alphabetic()).count();
    let out: String = match mode {
        0 => s.to_uppercase(),
        1 => {
            let mut c = s.chars();
            let f = c.next().unwrap();
            f.to_uppercase().collect::<String>() + c.as_str()
        }
        2 => s.chars().enumerate().map(|(i, c)| if i % 2 == 1 { c.to_ascii_uppercase() } else { c }).collect(),
        m => {
            // all 2^n casings for words of <= 4 letters (modes 3 .. 3+2^n-1)
            let k = m - 3;
            if n > 4 || k >= (1 << n) {
                return None;
            }
            let mut j = 0;
            s.chars()
                .map(|c| {
                    if c.is_alphabetic() {
                        let up = (k >> j) & 1 == 1;
                        j += 1;
                        if up {
                            c.to_ascii_uppercase()
                        } else {
                            c
                        }
                    } else {
                        c
                    }
                })
                .collect()
        }
    };
    if out == s {
        None
    } else {
        Some(out)
    }
}

pub const SUFFIXES: &[&str] = &["'s", "'re", "'S", "'RE", "'Re", "'rE", "(c)'s", "(c)'re", "(a\nb)'S", "(c) (d)'s"];

pub fn deviations(toks: &[Tk]) -> Vec<Dev> {
    let mut v = Vec::new();
    for (i, t) in toks.iter().enumerate() {
        if t.verbatim {
            continue;
        }
        if let Some(class) = t.kw {
            let al = aliases_of(class);
            // every alias as listed, in upper case and in title case
            for a in 0..3 * al.len() {
                if alias_spelling(class, a) != t.s {
                    v.push(Dev::Alias(i, a));
                }
            }
            for m in 0..19 {
                if recase(&t.s, m).is_some() {
                    v.push(Dev::Case(i, m));
                }
            }
            if class == "is" {
                // X's / X're
                if i > 0 && toks[i - 1].kw.is_none() && !toks[i - 1].s.ends_with('"') || i > 0 && toks[i - 1].kw == Some("it") {
                    // the suffix is a keyword: any letter case, after words and after literals alike
                    for k in 0..SUFFIXES.len() {
                        v.push(Dev::SuffixIs(i, k));
                    }
                }
            }
        }
        // the gap before token i (not at line start, not inside poetic content, not before a glued token)
        let bol = i == 0 || toks[i - 1].s == "\n";
        let inside_verbatim = i > 0 && toks[i - 1].verbatim || t.verbatim;
        if !bol && !t.glue && !inside_verbatim {
            for n in 0..NOISE.len() {
                v.push(Dev::Noise(i, n));
            }
        }
        if bol && t.s != "\n" {
            v.push(Dev::Indent(i, 0));
            v.push(Dev::Indent(i, 1));
        }
        if t.s == "\n" && i > 0 && toks[i - 1].s != "\n" && !toks[i - 1].verbatim {
            for p in 0..3 {
                // a period glued to a numeral is part of the numeral
                let numeric_tail = toks[i - 1].s.chars().last().map_or(false, |c| c.is_ascii_digit() || c == '.');
                if p == 0 && numeric_tail {
                    continue;
                }
                // after `else` only a line break is allowed; a trailing comma continues an open list
                if p < 2 && toks[i - 1].kw == Some("else") {
                    continue;
                }
                if p == 1 {
                    let start = toks[..i].iter().rposition(|t| t.s == "\n").map_or(0, |p| p + 1);
                    let open = toks[start..i].iter().any(|t| {
                        matches!(t.kw, Some("plus" | "minus" | "times" | "over" | "and" | "or" | "nor" | "isnt" | "gt" | "ge" | "lt" | "le" | "taking" | "takes" | "with" | "like" | "let"))
                            || t.s == "," || t.s == "&" || t.s == "'n'"
                    });
                    if open {
                        continue;
                    }
                }
                v.push(Dev::TrailingPunct(i, p));
            }
        }
    }
    if toks.last().map_or(false, |t| t.s == "\n") && toks.len() >= 2 && toks[toks.len() - 2].s != "\n" {
        v.push(Dev::NoFinalNewline);
    }
    for k in 0..8 {
        v.push(Dev::Whole(k));
    }
    if v.iter().any(|d| matches!(d, Dev::NoFinalNewline)) {
        let last = toks.len() - 1;
        let at_end: Vec<Dev> = v.iter().filter_map(|d| match d {
            Dev::TrailingPunct(i, p) if *i == last && *p < 2 => Some(Dev::TrailingPunctAtEof(*i, *p)),
            _ => None,
        }).collect();
        v.extend(at_end);
    }
    v
}

pub fn apply_dev(toks: &[Tk], d: &Dev) -> String {
    let mut t = toks.to_vec();
    match d {
        Dev::Alias(i, a) => {
            t[*i].s = alias_spelling(t[*i].kw.unwrap(), *a);
            render(&t)
        }
        Dev::Case(i, m) => {
            t[*i].s = recase(&t[*i].s, *m).unwrap();
            render(&t)
        }
        Dev::Noise(i, n) => render_with(&t, Some((*i, NOISE[*n]))),
        Dev::Indent(i, k) => render_with(&t, Some((*i, ["  ", "\t"][*k]))),
        Dev::TrailingPunct(i, p) => render_with(&t, Some((*i, [".", ",", " "][*p]))),
        Dev::TrailingPunctAtEof(i, p) => {
            let mut text = render_with(&t, Some((*i, [".", ","][*p])));
            if text.ends_with('\n') {
                text.pop();
            }
            text
        }
        Dev::NoFinalNewline => {
            t.pop();
            render(&t)
        }
        Dev::Whole(k) => {
            // poetic content (verbatim tokens) is left alone; everything else is respelled
            let gap = match k {
                1 => "\t",
                2 => "\u{a0}",
                5 => "  ",
                _ => " ",
            };
            if *k == 3 || *k == 4 {
                for x in t.iter_mut() {
                    if x.kw.is_some() && !x.verbatim {
                        if let Some(r) = recase(&x.s, if *k == 3 { 0 } else { 1 }) {
                            x.s = r;
                        }
                    }
                }
            }
            let mut out = String::new();
            for (i, x) in t.iter().enumerate() {
                let bol = out.is_empty() || out.ends_with('\n');
                if x.s == "\n" {
                    if *k == 6 && bol {
                        out.push_str(" \t ");
                    }
                    // after poetic content the line end is left alone (whether CR belongs to a poetic string is U-crlf)
                    let after_verbatim = i > 0 && t[i - 1].verbatim;
                    out.push_str(if *k == 0 && !after_verbatim { "\r\n" } else { "\n" });
                    continue;
                }
                if bol {
                    if *k == 7 {
                        out.push_str("\t  ");
                    }
                } else if !x.glue {
                    // inside poetic content the gap is content: keep the single space
                    let in_verbatim = x.verbatim || (i > 0 && t[i - 1].verbatim);
                    out.push_str(if in_verbatim { " " } else { gap });
                }
                out.push_str(&x.s);
            }
            out
        }
        Dev::SuffixIs(i, k) => {
            t[*i].s = SUFFIXES[*k].to_string();
            t[*i].glue = true;
            render(&t)
        }
    }
}

/// sizes around fixed capacities a parser may have (inline vectors of 4 / 8 / 16)
fn scale_cases() -> Vec<Base> {
    let mut v = Vec::new();
    let names: Vec<String> = (0..40).map(|i| format!("k{}", (b'a' + (i % 26) as u8) as char).repeat(1 + i / 26)).collect();
    for n in [4usize, 5, 8, 9, 16, 17, 33] {
        for sep in SEPS {
            // call with n arguments, function with n parameters
            let args: Vec<TE> = (0..n).map(|i| nm(&names[i])).collect();
            v.push(say_case(pe(call("fun", args.clone(), sep))));
            v.extend(finish(&[TSB::Simple(s_call("fun", args, sep))]));
            v.extend(finish(&[TSB::Function("fun".into(), names[..n].to_vec(), sep, vec![TSB::Simple(s_return(nm("ka"), 0))])]));
        }
        // list operand, rock list, compound list with n elements
        let elems: Vec<TE> = (0..n).map(|i| pe(num(&(i + 1).to_string()))).collect();
        v.extend(finish(&[TSB::Simple(s_rock(name_simple("x"), elems.clone()))]));
        v.extend(finish(&[TSB::Simple(s_let(name_simple("x"), Some((BinOp::Plus, "plus")), elems.clone()))]));
        {
            let mut t = vec![kw("say")];
            t.extend(nm("x").0);
            t.push(kw("times"));
            let mut es = Vec::new();
            for (i, e) in elems.iter().enumerate() {
                if i > 0 {
                    t.push(comma());
                }
                t.extend(e.0.clone());
                es.push(e.1.clone());
            }
            t.push(nl());
            v.push((t, vec![Stmt::Output(Expr::Bin(BinOp::Times, Box::new(nm("x").1), es))]));
        }
        // chains of n equal operators (left-associative), n-fold unary nesting, subscript chain, build / knock
        for (op, class) in [(BinOp::Minus, "minus"), (BinOp::Over, "over"), (BinOp::And, "and")] {
            let mut t = vec![kw("say")];
            t.extend(nm("x").0);
            let mut tree = nm("x").1;
            for i in 0..n {
                t.push(kw(class));
                let e = nm(&names[i]);
                t.extend(e.0);
                tree = Expr::Bin(op, Box::new(tree), vec![e.1]);
            }
            t.push(nl());
            v.push((t, vec![Stmt::Output(tree)]));
        }
        let mut e = nm("x");
        for i in 0..n {
            e = un(if i % 2 == 0 { UnOp::Not } else { UnOp::Neg }, e);
        }
        v.push(say_case(e));
        let mut p = name_simple("x");
        for i in 0..n {
            p = sub(p, num(&(i % 3).to_string()));
        }
        v.push(say_case(pe(p.clone())));
        v.extend(finish(&[TSB::Simple(s_put(pe(num("1")), p))]));
        v.extend(finish(&[TSB::Simple(s_build(name_simple("x"), n, n % 2 == 0)), TSB::Simple(s_knock(name_simple("x"), n, n % 2 == 1))]));
        // nesting depth n (alternating block kinds), closed by blank lines and by end of input
        let mut inner: Vec<TSB> = vec![TSB::Simple(s_say(pe(num("1"))))];
        for d in 0..n.min(17) {
            inner = vec![match d % 4 {
                0 => TSB::If(nm("c"), inner, None),
                1 => TSB::While(nm("c"), inner),
                2 => TSB::If(nm("c"), vec![TSB::Simple(s_say(pe(num("2"))))], Some(inner)),
                _ => TSB::Until(nm("c"), inner),
            }];
        }
        inner.push(TSB::Simple(s_say(pe(num("9")))));
        v.extend(finish(&inner));
        // n statements in one block, n top-level blocks
        let many: Vec<TSB> = (0..n).map(|i| TSB::Simple(s_say(pe(num(&i.to_string()))))).collect();
        v.extend(finish(&[TSB::While(nm("c"), many.clone()), TSB::Simple(s_say(pe(num("9"))))]));
        if let Some((t, st)) = finish(&many) {
            // separated by blank lines: the top-level partition is layout
            let mut t2 = Vec::new();
            for x in t {
                let is_nl = x.s == "\n";
                t2.push(x);
                if is_nl {
                    t2.push(nl());
                }
            }
            v.push((t2, st));
        }
    }
    v
}

/// all canonical (text tokens, tree) pairs: operator chains, lists, primaries, statements in contexts
pub fn canonical_corpus() -> Vec<(Vec<Tk>, Vec<Stmt>)> {
    let mut v = expr_cases();
    v.extend(primary_cases());
    v.extend(statement_cases());
    v.extend(scale_cases());
    v
}

pub struct C02 {
    fixed: Rc<Vec<Base>>,
    shapes: Space<Vec<Shape>>,
    dev_bases: Rc<Vec<Base>>,
    dev_prefix: Rc<Vec<u64>>,
    pair_bases: Rc<Vec<Base>>,
    pair_prefix: Rc<Vec<u64>>,
}

fn build(tier: Tier) -> Box<dyn Check> {
    let mut fixed = expr_cases();
    let prim = primary_cases();
    let stmts = statement_cases();
    fixed.extend(prim.clone());
    fixed.extend(stmts.clone());
    let scale = scale_cases();
    fixed.extend(scale.clone());
    let mut memo = std::collections::HashMap::new();
    let shapes = Space::union((1..=tier.pick(8, 9)).map(|n| shape_block(n, 3, &mut memo)).collect());
    // deviation corpus: primaries, statements, a slice of operator chains, small block shapes
    let mut dev_bases: Vec<Base> = Vec::new();
    dev_bases.extend(prim);
    dev_bases.extend(stmts.clone());
    dev_bases.extend(scale.into_iter().step_by(3));
    let ec = expr_cases();
    dev_bases.extend(ec.iter().step_by(tier.pick(9, 2)).cloned());
    let mut memo2 = std::collections::HashMap::new();
    let small = Space::union((1..=4).map(|n| shape_block(n, 3, &mut memo2)).collect());
    for s in small.iter() {
        let mut c = 0;
        if let Some(b) = lines(&shape_to_tsb(&s, &mut c)) {
            dev_bases.push(b);
        }
    }
    let mut dev_prefix = vec![0u64];
    for b in &dev_bases {
        dev_prefix.push(dev_prefix.last().unwrap() + deviations(&b.0).len() as u64);
    }
    // pairs of deviations (thorough): the statement corpus at top level only
    let pair_bases: Vec<Base> = if tier == Tier::Thorough { simple_statements().into_iter().step_by(2).filter_map(|s| finish(&[TSB::Simple(s)])).collect() } else { Vec::new() };
    let mut pair_prefix = vec![0u64];
    for b in &pair_bases {
        let n = deviations(&b.0).len() as u64;
        pair_prefix.push(pair_prefix.last().unwrap() + n * n);
    }
    Box::new(C02 { fixed: Rc::new(fixed), shapes, dev_bases: Rc::new(dev_bases), dev_prefix: Rc::new(dev_prefix), pair_bases: Rc::new(pair_bases), pair_prefix: Rc::new(pair_prefix) })
}

fn locate(prefix: &[u64], idx: u64) -> (usize, u64) {
    let p = match prefix.binary_search(&idx) {
        Ok(mut p) => {
            while prefix[p + 1] == prefix[p] {
                p += 1;
            }
            p
        }
        Err(p) => p - 1,
    };
    (p, idx - prefix[p])
}

/// token positions of deviation d (for the pair family: two deviations must not touch the same token)
fn dev_pos(d: &Dev) -> Option<usize> {
    match d {
        Dev::Alias(i, _) | Dev::Case(i, _) | Dev::Noise(i, _) | Dev::TrailingPunct(i, _) | Dev::Indent(i, _) | Dev::SuffixIs(i, _) | Dev::TrailingPunctAtEof(i, _) => Some(*i),
        Dev::NoFinalNewline | Dev::Whole(_) => None,
    }
}

impl C02 {
    fn case(&self, fam: usize, idx: u64) -> Option<(String, Vec<Stmt>, String)> {
        match fam {
            0 => {
                let (t, s) = &self.fixed[idx as usize];
                Some((render(t), s.clone(), "canonical".into()))
            }
            1 | 2 => {
                let sh = self.shapes.get(idx);
                let mut c = 0;
                let (t, s) = lines(&shape_to_tsb(&sh, &mut c))?;
                let mut text = render(&t);
                if fam == 2 {
                    // blocks closed by end of input, no trailing newline
                    while text.ends_with('\n') {
                        text.pop();
                    }
                }
                Some((text, s, if fam == 1 { "closed by blank lines".into() } else { "closed by end of input".into() }))
            }
            3 => {
                let (b, k) = locate(&self.dev_prefix, idx);
                let (t, s) = &self.dev_bases[b];
                let d = &deviations(t)[k as usize];
                Some((apply_dev(t, d), s.clone(), format!("{:?}", d)))
            }
            _ => {
                let (b, k) = locate(&self.pair_prefix, idx);
                let (t, s) = &self.pair_bases[b];
                let devs = deviations(t);
                let n = devs.len() as u64;
                let (d1, d2) = (&devs[(k / n) as usize], &devs[(k % n) as usize]);
                if k / n >= k % n || dev_pos(d1) == dev_pos(d2) {
                    return None;
                }
                // apply d2 on the token list after a token-level d1 where possible; noise-type
                // deviations are rendering-level, so combine one token-level with one of any kind
                let mut t1 = t.clone();
                let text = match d1 {
                    Dev::Alias(i, a) => {
                        t1[*i].s = alias_spelling(t1[*i].kw.unwrap(), *a);
                        apply_dev(&t1, d2)
                    }
                    Dev::Case(i, m) => {
                        t1[*i].s = recase(&t1[*i].s, *m)?;
                        apply_dev(&t1, d2)
                    }
                    Dev::SuffixIs(i, k) => {
                        t1[*i].s = SUFFIXES[*k].to_string();
                        t1[*i].glue = true;
                        apply_dev(&t1, d2)
                    }
                    _ => return None,
                };
                Some((text, s.clone(), format!("{:?} + {:?}", d1, d2)))
            }
        }
    }
}

impl Check for C02 {
    fn families(&self) -> Vec<(String, u64)> {
        vec![
            ("canonical".into(), self.fixed.len() as u64),
            ("block-shapes".into(), self.shapes.len()),
            ("block-shapes-closed-by-eof".into(), self.shapes.len()),
            ("one-deviation".into(), *self.dev_prefix.last().unwrap()),
            ("two-deviations".into(), *self.pair_prefix.last().unwrap()),
        ]
    }
    fn describe(&self, fam: usize, idx: u64) -> Value {
        match self.case(fam, idx) {
            Some((text, tree, how)) => json!({"text": text, "spelling": how, "expected_tree": format!("{:?}", tree)}),
            None => json!({"text": "<not expressible / not generated>"}),
        }
    }
    fn run_case(&self, fam: usize, idx: u64, ctx: &mut Ctx) {
        let (text, expected, how) = match self.case(fam, idx) {
            Some(c) => c,
            None => {
                ctx.count("not_expressible_in_the_grammar");
                return;
            }
        };
        ctx.case_text(&text);
        ctx.nontrivial();
        match rrss::frontend::parser::parse(&text) {
            Err(e) => {
                ctx.observe_str("parse-error");
                ctx.violation("rejected", format!("valid program rejected ({}): {} — text {:?} expected tree {:?}", how, e, text, expected));
            }
            Ok(p) => {
                let got = rast::program(&p);
                ctx.observe_str(&format!("{:?}", p));
                if got != expected {
                    ctx.violation("wrong-tree", format!("spelling {} — text {:?} parsed to {:?} but the grammar assigns {:?}", how, text, got, expected));
                }
            }
        }
    }
    fn static_coverage(&self) -> Value {
        let mut kinds = std::collections::BTreeSet::new();
        for (_, s) in self.fixed.iter() {
            for st in s {
                fn walk(s: &Stmt, k: &mut std::collections::BTreeSet<String>) {
                    let n = format!("{:?}", s);
                    k.insert(n.split(|c: char| !c.is_alphanumeric()).next().unwrap_or("").to_string());
                    match s {
                        Stmt::If { then, els, .. } => {
                            then.iter().for_each(|x| walk(x, k));
                            if let Some(e) = els {
                                e.iter().for_each(|x| walk(x, k));
                            }
                        }
                        Stmt::While { body, .. } | Stmt::Until { body, .. } | Stmt::Function { body, .. } => body.iter().for_each(|x| walk(x, k)),
                        _ => {}
                    }
                }
                walk(st, &mut kinds);
            }
        }
        let alias_words: usize = ALIASES.iter().map(|(_, a)| a.len()).sum::<usize>() + SINGLE_KEYWORDS.len();
        json!({
            "statement_kinds_in_canonical_corpus": kinds,
            "alias_table_words": alias_words,
            "operator_spellings": op_spellings().iter().map(|o| o.label).collect::<Vec<_>>(),
            "noise_kinds": NOISE,
            "deviation_base_programs": self.dev_bases.len(),
        })
    }
}

/* LD_PRELOAD shim: makes the hash seeds of a Rust process a function of $GRSHIM_SEED, so that
 * HashMap iteration orders of the rrss binary can be enumerated from outside (C10 / C20). */
#include <stddef.h>
#include <stdint.h>
#include <stdlib.h>
#include <sys/types.h>

static uint64_t splitmix(uint64_t *x) {
  *x += 0x9E3779B97F4A7C15ULL;
  uint64_t z = *x;
  z = (z ^ (z >> 30)) * 0xBF58476D1CE4E5B9ULL;
  z = (z ^ (z >> 27)) * 0x94D049BB133111EBULL;
  return z ^ (z >> 31);
}

ssize_t getrandom(void *buf, size_t len, unsigned int flags) {
  (void)flags;
  const char *s = getenv("GRSHIM_SEED");
  uint64_t st = s ? strtoull(s, NULL, 10) : 0;
  st = st * 0x100000001B3ULL + 0x5eed;
  unsigned char *p = (unsigned char *)buf;
  size_t i = 0;
  while (i < len) {
    uint64_t w = splitmix(&st);
    for (int j = 0; j < 8 && i < len; j++, i++) p[i] = (unsigned char)(w >> (8 * j));
  }
  return (ssize_t)len;
}

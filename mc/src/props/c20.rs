//! C20 — the command-line tool behaves exactly like the library on the same file.
//! Differential at process level: the `rrss` binary built from /repo (debug build for the checked
//! configuration, release build for the release configuration) against the library's cli::* functions.
use super::{c08, c09, c10, c13, c19, corpus};
use crate::engine::space::Space;
use crate::engine::*;
use serde_json::{json, Value};
use std::io::{Read, Write};
use std::process::{Command, Stdio};
use std::rc::Rc;

pub const DEF: PropDef = PropDef {
    id: "C20",
    level: "exploration",
    rule: "a corpus of programs (succeeding, failing at parse time on various lines, failing at run time after k lines of output, failing with messages that quote values of 60..5000 characters / elements (ASCII and multi-byte), reading input, printing multi-line strings, building dictionaries, stray break / continue / return at top level followed by further blocks, several lint diagnostics per line in both name orders, recursion 100 / 300 / 1000 calls deep) x 8 standard-input contents (lines ending in CR LF, empty, one line, several lines, no final newline, non-ASCII, a line that is not valid UTF-8, leading blank lines) x sub-commands exec (separate pipes; stdout+stderr merged into one pipe for the first two inputs, thorough: for all), lint, parse; plus 14 file forms (a said text of 8 KiB stretches between line breaks, leading blank lines, string constants with backticks, missing final newline, CRLF, byte-order mark, multi-line strings, 3000 lines (more output than a pipe buffer) with and without a final runtime error) under 12 file names (blanks, non-ASCII, NBSP, tab, apostrophe, no / double / upper-case extension, hidden, nested directories, a directory named like an option) x 4 sub-command modes; plus 4 programs handed over through a pipe (`rrss SUB /dev/stdin < program`); plus usage errors (unknown sub-command, missing argument, missing file, directory as file) and dictionary programs run as separate processes under 8 hash seeds (LD_PRELOAD getrandom shim); oracle (independent of src/cli): stdout equals what frontend::parser::parse + exec::exec_using write for the same text and input; `parse` prints the pretty Debug tree of the library's parse; `lint` prints one line per library diagnostic (its line and issue) followed by one tab-indented line per suggestion and nothing else; errors go to stderr as `<prefix naming parse/runtime>: <library message>`, on the merged pipe the error line comes after all output, usage errors exit non-zero; non-trivial = every case (a process is spawned and compared); distinct = distinct (program, input, mode)",
    assumptions: &["NO_COLOR=1 for both sides", "exit status after parse / runtime errors and with no arguments at all is observed and reported, not judged (the property does not state it)", "the binaries are rebuilt from /repo by ./check before the run"],
    build,
    exhaustive: true,
};

pub const STDINS: &[&[u8]] = &[b"", b"one\n", b"one\ntwo\nthree\n", b"one\ntwo", "é ü\nñ\n".as_bytes(), b"ok\n\xff\xfe bad\nlater\n", b"\n\nafter blanks\n", b"abc\r\ndef\r\nlast\r"];

#[derive(Clone, Debug)]
pub enum Mode {
    Exec(usize, bool),
    Lint,
    Parse,
    Seeded(u64),
}

pub struct C20 {
    programs: Rc<Vec<String>>,
    cases: Space<(usize, Mode)>,
    usage: Vec<(&'static str, Vec<&'static str>, bool)>,
    dir: std::path::PathBuf,
    /// (source text, mode, file name relative to the scratch directory)
    named: Space<(String, Mode, &'static str)>,
}

/// programs handed to the binary through a pipe instead of a regular file: `rrss SUB /dev/stdin < program`
pub const PIPED: &[&str] = &["say 1\nsay 2\n", "put 5 into x\nput 5 into x\nsay x plus x\nsay zed\n", "say 1\nput 1 into\n", "listen to x\nsay x\nsay \"end\"\n"];

/// file names a path-handling slip would trip over
pub const FILE_NAMES: &[&str] = &["my prog.rock", "prög €.rock", ".hidden", "noext", "UPPER.ROCK", "a.b.c.rock", "sub dir/inner/p.rock", "x\u{a0}y.rock", "tab\there.rock", "it's.rock", "-.rock/p.rock", "p.rock.bak"];

fn named_sources() -> Vec<String> {
    let long: String = (0..3000).map(|i| format!("say {}\n", i)).collect();
    vec![
        "say 1\nlisten to x\nsay x\n".to_string(),
        "say 1\nsay zed\nsay 2\n".to_string(),
        "say 1\nput 1 into\n".to_string(),
        "put 5 into x\nput 5 into x\nsay x plus x\n".to_string(),
        "say 1".to_string(),
        "say 1\r\nsay 2\r\n".to_string(),
        "\u{feff}say 1\n".to_string(),
        "say \"é😀\"\nsay \"a\nb\"\n".to_string(),
        // one say whose text has line breaks with long stretches between and after them
        "put \"0123456789abcdef\" into s\nput 0 into c\nwhile c is less than 9\nbuild c up\nlet s be with s\n\nsay \"head\n\" plus s\nsay s plus \"\n\" plus s plus \"\ntail\"\nsay s\nsay zed\n".to_string(),
        "\n\nlet x be 5\nsay x plus x\nsay zed\n".to_string(),
        "  \n\t\nput 5 into x\nsay x\nput 1 into\n".to_string(),
        "let x be \"a`b\"\nlet y be \"``\"\nlet z be \"`\"\nput \"a `quoted` word`\" into x\nsay x\n".to_string(),
        long.clone(),
        format!("{}say zed\n", long),
    ]
}

pub fn bin_path() -> std::path::PathBuf {
    let profile = if cfg!(debug_assertions) { "debug" } else { "release" };
    std::path::PathBuf::from(crate::engine::orch::verif_dir()).join("target/rrss-bin").join(profile).join("rrss")
}

fn corpus_programs(tier: Tier) -> (Vec<String>, usize) {
    let mut v: Vec<String> = corpus::VALID.iter().map(|s| s.to_string()).collect();
    // parse errors on various lines
    for (ci, (pre, suf, nl)) in c13::CONTEXTS.iter().enumerate() {
        for f in c13::FAULTS.iter().step_by(tier.pick(9, 2)).skip(ci % 3) {
            v.push(format!("{}{}{}{}", pre, f, if *nl { "\n" } else { "" }, suf));
        }
    }
    // runtime errors after k lines of output
    for k in 0..4 {
        let pre: String = (0..k).map(|i| format!("say {}\n", i)).collect();
        for e in [
            "say zed\n", "say - true\n", "put 5 into x\nsay x at 0\n", "rock x with 1\nsay x at x\n", "say fun taking 1\n", "put 1 into x\nsay x taking 1\n", "cast \"zz\" into y\n", "cut 5 into y\n", "join 5 into y\n", "say 1 < true\n",
            "put \"s\" into x\nlet x at 0 be 1\n", "roll 5\n", "build x up\n", "say it\n", "fun takes k\nsay k\n\nfun taking 1, 2\n", "put \"0\" into x\ncast x with 1\n", "let x at 1e30 be 1\n", "turn up \"s\"\n",
        ] {
            v.push(format!("{}{}say 99\n", pre, e));
        }
    }
    // runtime errors whose message quotes a long value (message length thresholds, multi-byte text at the cut)
    for n in [60usize, 100, 119, 120, 121, 127, 128, 255, 256, 1000, 5000] {
        for unit in ["z", "é", "😀z"] {
            let s: String = unit.repeat(n);
            v.push(format!("say 1\ncast \"{}\" into y\nsay 99\n", s));
            v.push(format!("say 1\nput \"{}\" into x\nsay x taking 1\nsay 99\n", s));
            v.push(format!("say 1\nput \"{}\" into x\nsay 1 < x\nsay 99\n", s));
        }
        let list: String = (0..n).map(|i| i.to_string()).collect::<Vec<_>>().join(", ");
        v.push(format!("rock x with {}\nsay x at x\nsay 99\n", list));
        v.push(format!("rock x with {}\nlet x at \"kéy\" be \"vé\"\ncut x\nsay 99\n", list));
    }
    // call depths the interpreter supports on the main thread's stack (the binary must not run the program on a smaller one)
    for d in [100usize, 300, 1000] {
        v.push(format!("deep takes k\nif k is 0\ngive back 0\n\nlet j be k minus 1\ngive back deep taking j\n\nsay \"before\"\nsay deep taking {}\n", d));
    }
    // assignments of constants (lint diagnostics with and without suggestions)
    for rhs in ["0 - 5", "-5", "-0", "1 over 0", "0 over 0", "\"a\nb\"", "5", "\"a b\"", "105.25", "y"] {
        for form in ["put E into x\n", "let x be E\nsay x\n", "x is E\n", "rock x with E\nsay x at 0\n", "if true\nput E into the zed\n\nput E into Zed Yod\nput E into it\n"] {
            v.push(form.replace('E', rhs));
        }
    }
    // stray control flow at top level followed by more blocks (only binary vs library is judged)
    {
        let stray: Space<&'static str> = Space::of(c09::STRAY.to_vec());
        let first: Space<&'static str> = Space::of(c09::STRAY[..5].to_vec());
        let seqs = if tier == Tier::Thorough { stray.seq_range(1, 2) } else { Space::union(vec![stray.seq_range(1, 1), first.seq_range(2, 2)]) };
        for p in seqs.iter() {
            v.push(format!("put true into vb\nsay 0\n{}say 8\n\nsay 9\nsay 10\n", p.concat()));
        }
    }
    // several diagnostics per line and per pass, in both name orders
    for t in c19::TEMPLATES.iter().filter(|t| !t.contains("while ") && !t.contains("until ")) {
        for f in [[0usize, 0, 3, 3], [3, 3, 0, 0], [0, 3, 0, 3], [3, 0, 0, 3], [0, 0, 0, 0], [2, 2, 3, 3], [3, 3, 2, 2]] {
            v.push(c19::fill(t, &f));
        }
    }
    for s in ["put zed plus zed plus abe plus abe into qux\n", "put abe plus abe plus zed plus zed into qux\nput 5 into qux\nput 4 into abe\n", "let x be 5\nsay x plus x, x\nrock y with 1\nrock y with y\n"] {
        v.push(s.to_string());
    }
    // say / listen programs
    let s: Space<&'static str> = Space::of(c08::STMTS.to_vec());
    for p in s.seq_range(1, tier.pick(2, 3)).iter() {
        v.push(p.concat());
    }
    v.push("say \"two\nlines\"\nsay \"\"\nsay \" \"\n".to_string());
    v.push("listen to x\nlisten to y\nlisten to z\nlisten to u\nsay x\nsay y\nsay z\nsay u\n".to_string());
    v.push(String::new());
    v.push("\n\n".to_string());
    v.push("(only a comment)\n".to_string());
    let first_dict = v.len();
    // dictionary programs (also run under several hash seeds as separate processes)
    let d = c10::dict_programs(3);
    for (t, _) in d.iter().step_by(tier.pick(37, 5)) {
        v.push(t);
    }
    (v, first_dict)
}

fn build(tier: Tier) -> Box<dyn Check> {
    let (mut programs, first_dict) = corpus_programs(tier);
    let n = programs.len();
    let mut modes: Vec<Mode> = Vec::new();
    for i in 0..STDINS.len() {
        modes.push(Mode::Exec(i, false));
        // both streams on one pipe: what matters is the order of output and error line, not the input
        if i < 2 || tier == Tier::Thorough {
            modes.push(Mode::Exec(i, true));
        }
    }
    modes.push(Mode::Lint);
    modes.push(Mode::Parse);
    let progs: Space<usize> = Space::of((0..n).collect());
    let general = progs.product(&Space::of(modes), |p, m| (p, m));
    let dicts: Space<usize> = Space::of((first_dict..n).collect());
    // seeded processes also run texts that exercise process-global tables of the front end: every keyword
    // and alias cut short by an apostrophe, as operator and as first word
    let first_trunc = programs.len();
    for (_, spellings) in crate::refmodel::grammar::ALIASES {
        for w in spellings.iter() {
            if w.len() >= 2 && w.chars().all(|c| c.is_ascii_alphabetic()) {
                let stem = &w[..w.len() - 1];
                programs.push(format!("say 2 {}' 3\n", stem));
                programs.push(format!("{}' x\nsay 1\n", stem));
            }
        }
    }
    let n = programs.len();
    let truncs: Space<usize> = Space::of((first_trunc..n).collect());
    let seeded = Space::union(vec![dicts.product(&Space::of((0..8u64).map(Mode::Seeded).collect()), |p, m| (p, m)), truncs.product(&Space::of((0..8u64).map(Mode::Seeded).collect()), |p, m| (p, m))]);
    let dir = std::path::PathBuf::from(crate::engine::orch::verif_dir()).join("target/tmp").join(format!("c20-{}", std::process::id()));
    Box::new(C20 {
        programs: Rc::new(programs),
        cases: Space::union(vec![general, seeded]),
        usage: vec![
            ("unknown sub-command", vec!["frobnicate", "FILE"], true),
            ("missing file argument (exec)", vec!["exec"], true),
            ("missing file argument (lint)", vec!["lint"], true),
            ("missing file argument (parse)", vec!["parse"], true),
            ("non-existent file (exec)", vec!["exec", "/nonexistent-dir/does-not-exist.rock"], true),
            ("non-existent file (lint)", vec!["lint", "/nonexistent-dir/does-not-exist.rock"], true),
            ("non-existent file (parse)", vec!["parse", "/nonexistent-dir/does-not-exist.rock"], true),
            ("directory as file", vec!["exec", "/"], true),
            ("unknown option", vec!["--frobnicate"], true),
            ("two files, the first missing (exec)", vec!["exec", "/nonexistent-dir/does-not-exist.rock", "@OK"], true),
            ("two files, the first missing (lint)", vec!["lint", "/nonexistent-dir/does-not-exist.rock", "@OK"], true),
            ("two files, the first missing (parse)", vec!["parse", "/nonexistent-dir/does-not-exist.rock", "@OK"], true),
            ("two files, the second missing (exec)", vec!["exec", "@OK", "/nonexistent-dir/does-not-exist.rock"], true),
            ("no arguments at all", vec![], false),
        ],
        dir,
        named: {
            let srcs: Space<String> = Space::of(named_sources());
            let names: Space<&'static str> = Space::of(FILE_NAMES.to_vec());
            let modes = Space::of(vec![Mode::Exec(1, false), Mode::Exec(1, true), Mode::Lint, Mode::Parse]);
            srcs.product(&names, |s, n| (s, n)).product(&modes, |(s, n), m| (s, m, n))
        },
    })
}

pub struct Spawned {
    pub stdout: Vec<u8>,
    pub stderr: Vec<u8>,
    pub code: Option<i32>,
    pub timed_out: bool,
}

pub fn spawn(args: &[&str], stdin: &[u8], merged: bool, seed: Option<u64>) -> std::io::Result<Spawned> {
    let bin = bin_path();
    let mut cmd = if merged {
        let mut c = Command::new("sh");
        c.arg("-c").arg("exec \"$0\" \"$@\" 2>&1").arg(&bin);
        c
    } else {
        Command::new(&bin)
    };
    cmd.args(args).env("NO_COLOR", "1").env_remove("CLICOLOR_FORCE").stdin(Stdio::piped()).stdout(Stdio::piped()).stderr(Stdio::piped());
    if let Some(s) = seed {
        cmd.env("LD_PRELOAD", format!("{}/target/libgrshim.so", crate::engine::orch::verif_dir())).env("GRSHIM_SEED", s.to_string());
    }
    let mut child = cmd.spawn()?;
    {
        let mut si = child.stdin.take().unwrap();
        let _ = si.write_all(stdin);
    }
    let mut so = child.stdout.take().unwrap();
    let mut se = child.stderr.take().unwrap();
    let eh = std::thread::spawn(move || {
        let mut b = Vec::new();
        let _ = se.read_to_end(&mut b);
        b
    });
    let oh = std::thread::spawn(move || {
        let mut b = Vec::new();
        let _ = so.read_to_end(&mut b);
        b
    });
    let t0 = std::time::Instant::now();
    let mut timed_out = false;
    let code = loop {
        match child.try_wait()? {
            Some(st) => break st.code(),
            None => {
                if t0.elapsed().as_secs() > 30 {
                    let _ = child.kill();
                    let _ = child.wait();
                    timed_out = true;
                    break None;
                }
                std::thread::sleep(std::time::Duration::from_millis(2));
            }
        }
    };
    Ok(Spawned { stdout: oh.join().unwrap_or_default(), stderr: eh.join().unwrap_or_default(), code, timed_out })
}

/// What the library (not the cli module) says about a text: expected stdout, and the error if any.
pub enum LibErr {
    None,
    Parse(String),
    Runtime(String),
}

pub struct Expect {
    pub stdout: Vec<u8>,
    pub err: LibErr,
    /// lint mode: the diagnostics (line, issue, suggestions) the binary must print, in order
    pub diags: Option<Vec<(u32, String, Vec<String>)>>,
}

fn library(mode: &Mode, src: &str) -> Expect {
    let prog = match rrss::frontend::parser::parse(src) {
        Ok(p) => p,
        Err(e) => return Expect { stdout: Vec::new(), err: LibErr::Parse(e.to_string()), diags: None },
    };
    match mode {
        Mode::Exec(..) | Mode::Seeded(_) => {
            let input: &[u8] = if let Mode::Exec(i, _) = mode { STDINS[*i] } else { b"" };
            let mut out = Vec::new();
            let r = rrss::exec::exec_using(input, &mut out, &prog);
            Expect { stdout: out, err: r.map_or_else(|e| LibErr::Runtime(e.to_string()), |_| LibErr::None), diags: None }
        }
        Mode::Lint => {
            let r = rrss::linter::standard_linter().run(&prog);
            Expect { stdout: Vec::new(), err: LibErr::None, diags: Some(r.diags.iter().map(|d| (d.line, d.issue.clone(), d.suggestions.clone())).collect()) }
        }
        Mode::Parse => Expect { stdout: format!("{:#?}\n", prog).into_bytes(), err: LibErr::None, diags: None },
    }
}

/// stderr must be `<prefix naming the kind>: <library message>\n`
fn check_stderr(err: &LibErr, stderr: &[u8]) -> Result<(), String> {
    let (kind, msg) = match err {
        LibErr::None => return if stderr.is_empty() { Ok(()) } else { Err(format!("nothing should be written to standard error, got {:?}", lossy(stderr))) },
        LibErr::Parse(m) => ("parse", m),
        LibErr::Runtime(m) => ("runtime", m),
    };
    let text = String::from_utf8_lossy(stderr);
    let tail = format!("{}\n", msg);
    if !text.ends_with(&tail) {
        return Err(format!("standard error should end with the library's message {:?}, got {:?}", msg, lossy(stderr)));
    }
    let prefix = &text[..text.len() - tail.len()];
    if prefix.is_empty() || !prefix.to_lowercase().contains(kind) || prefix.contains('\n') {
        return Err(format!("the {} error should be prefixed as such on one line; prefix is {:?}", kind, prefix));
    }
    Ok(())
}

/// lint output: one line per diagnostic naming its line and issue, then one tab-indented line per
/// suggestion, nothing else; wording around them is not pinned
fn check_lint_stdout(diags: &[(u32, String, Vec<String>)], stdout: &[u8]) -> Result<(), String> {
    let text = String::from_utf8_lossy(stdout);
    if diags.is_empty() {
        return if text.contains("(line ") { Err(format!("no diagnostic is due but the output mentions a line: {:?}", lossy(stdout))) } else { Ok(()) };
    }
    let mut lines = text.split('\n').peekable();
    for (line, issue, sugs) in diags {
        // an issue may itself span lines (values are quoted verbatim)
        let first = lines.next().unwrap_or("");
        let mut head = first.to_string();
        let mut need = issue.matches('\n').count();
        while need > 0 {
            head.push('\n');
            head.push_str(lines.next().unwrap_or(""));
            need -= 1;
        }
        if !head.contains(&format!("(line {})", line)) || !head.contains(issue.as_str()) {
            return Err(format!("expected a line for the diagnostic (line {}) {:?}, got {:?}", line, issue, head));
        }
        for s in sugs {
            let mut got = lines.next().unwrap_or("").to_string();
            let mut need = s.matches('\n').count();
            while need > 0 {
                got.push('\n');
                got.push_str(lines.next().unwrap_or(""));
                need -= 1;
            }
            if got != format!("\t{}", s) {
                return Err(format!("expected the suggestion line {:?}, got {:?}", format!("\t{}", s), got));
            }
        }
        let remaining = lines.clone().count();
        if let Some(next) = lines.peek() {
            if next.starts_with('\t') || (next.is_empty() && remaining > 1) {
                return Err(format!("unexpected extra line {:?} after the diagnostic on line {}", next, line));
            }
        }
    }
    let rest: Vec<&str> = lines.filter(|l| !l.is_empty()).collect();
    if !rest.is_empty() {
        return Err(format!("unexpected extra output {:?}", rest));
    }
    Ok(())
}

fn lossy(b: &[u8]) -> String {
    let s = String::from_utf8_lossy(b);
    crate::engine::orch::truncate(&s, 300)
}

impl Check for C20 {
    fn families(&self) -> Vec<(String, u64)> {
        vec![("program x input x sub-command".into(), self.cases.len()), ("usage".into(), self.usage.len() as u64), ("file name x file form x sub-command".into(), self.named.len()), ("program read from a pipe (/dev/stdin)".into(), (PIPED.len() * 3) as u64)]
    }
    fn describe(&self, fam: usize, idx: u64) -> Value {
        if fam == 1 {
            let (name, args, _) = &self.usage[idx as usize];
            json!({"text": format!("rrss {}", args.join(" ")), "usage_case": name})
        } else if fam == 3 {
            json!({"text": format!("rrss {} /dev/stdin < {:?}", ["exec", "lint", "parse"][(idx % 3) as usize], PIPED[(idx / 3) as usize])})
        } else if fam == 2 {
            let (src, m, name) = self.named.get(idx);
            json!({"text": format!("{:?} on file {:?} holding {:?}", m, name, crate::engine::orch::truncate(&src, 200)), "mode": format!("{:?}", m)})
        } else {
            let (p, m) = self.cases.get(idx);
            json!({"text": format!("{:?} on {:?}", m, self.programs[p]), "mode": format!("{:?}", m), "program": self.programs[p]})
        }
    }
    fn run_case(&self, fam: usize, idx: u64, ctx: &mut Ctx) {
        ctx.nontrivial();
        if fam == 3 {
            let src = PIPED[(idx / 3) as usize];
            let (sub, mode) = [("exec", Mode::Exec(0, false)), ("lint", Mode::Lint), ("parse", Mode::Parse)][(idx % 3) as usize].clone();
            // the program arrives on standard input; what is left of standard input afterwards is empty
            let want = library(&mode, src);
            match spawn(&[sub, "/dev/stdin"], src.as_bytes(), false, None) {
                Ok(s) => {
                    ctx.observe(&s.stdout);
                    if s.code.is_none() || s.timed_out {
                        ctx.violation("crash", format!("`rrss {} /dev/stdin` with the program on a pipe was killed or hung — program {:?}", sub, src));
                        return;
                    }
                    let ok_out = match &want.diags {
                        Some(d) if matches!(want.err, LibErr::None) => check_lint_stdout(d, &s.stdout).is_ok(),
                        _ => s.stdout == want.stdout,
                    };
                    if !ok_out {
                        ctx.violation("cli-differs", format!("`rrss {} /dev/stdin < program`: library gives {:?}, binary printed {:?} — program {:?}", sub, lossy(&want.stdout), lossy(&s.stdout), src));
                    }
                    if let Err(m) = check_stderr(&want.err, &s.stderr) {
                        ctx.violation("cli-differs", format!("`rrss {} /dev/stdin < program`: {} — program {:?}", sub, m, src));
                    }
                }
                Err(e) => ctx.violation("cannot-spawn", format!("cannot run the rrss binary {}: {}", bin_path().display(), e)),
            }
            return;
        }
        if fam == 1 {
            let (name, args, judged) = &self.usage[idx as usize];
            // "@OK" stands for an existing, valid program file
            std::fs::create_dir_all(&self.dir).ok();
            let ok_path = self.dir.join("usage-ok.rock");
            std::fs::write(&ok_path, "say 1\n").ok();
            let ok_s = ok_path.to_string_lossy().into_owned();
            let args: Vec<&str> = args.iter().map(|a| if *a == "@OK" { ok_s.as_str() } else { *a }).collect();
            let args = &args;
            match spawn(args, b"", false, None) {
                Ok(s) => {
                    ctx.observe_str(&format!("{:?}", s.code.map(|c| c != 0)));
                    if *judged {
                        if s.code == Some(0) || s.timed_out {
                            ctx.violation("usage-error-exits-zero", format!("{}: `rrss {}` exited with status {:?} (stderr {:?})", name, args.join(" "), s.code, lossy(&s.stderr)));
                        }
                        if s.code.is_none() && !s.timed_out {
                            ctx.violation("crash", format!("{}: `rrss {}` was killed by a signal", name, args.join(" ")));
                        }
                    } else {
                        ctx.note(format!("observed, not judged: {} -> exit status {:?}", name, s.code));
                    }
                }
                Err(e) => ctx.violation("cannot-spawn", format!("cannot run the rrss binary {}: {}", bin_path().display(), e)),
            }
            return;
        }
        let (src_owned, mode, file_name): (String, Mode, String) = if fam == 2 {
            let (s, m, n) = self.named.get(idx);
            (s, m, format!("named-{}/{}", idx, n))
        } else {
            let (p, mode) = self.cases.get(idx);
            (self.programs[p].clone(), mode, format!("p{}.rock", p))
        };
        let src = &src_owned;
        let path = self.dir.join(&file_name);
        std::fs::create_dir_all(path.parent().unwrap()).ok();
        if std::fs::write(&path, src).is_err() {
            panic!("cannot write {}", path.display());
        }
        let path_s = path.to_string_lossy().into_owned();
        let (sub, stdin, merged, seed): (&str, &[u8], bool, Option<u64>) = match &mode {
            Mode::Exec(i, m) => ("exec", STDINS[*i], *m, None),
            Mode::Lint => ("lint", b"", false, None),
            Mode::Parse => ("parse", b"", false, None),
            Mode::Seeded(s) => ("exec", b"", false, Some(*s)),
        };
        let want = library(&mode, src);
        let s = match spawn(&[sub, &path_s], stdin, merged, seed) {
            Ok(s) => s,
            Err(e) => {
                ctx.violation("cannot-spawn", format!("cannot run the rrss binary {}: {}", bin_path().display(), e));
                return;
            }
        };
        ctx.observe(&s.stdout);
        ctx.observe(&s.stderr);
        ctx.count(&format!("exit_status.{:?}", s.code));
        ctx.count(match want.err {
            LibErr::None => "library.ok",
            LibErr::Parse(_) => "library.parse_error",
            LibErr::Runtime(_) => "library.runtime_error",
        });
        if s.timed_out {
            ctx.violation("hang", format!("`rrss {} FILE` did not terminate within 30 s — program {:?}", sub, src));
            return;
        }
        if s.code.is_none() {
            ctx.violation("crash", format!("`rrss {} FILE` was killed by a signal — program {:?} stderr {:?}", sub, src, lossy(&s.stderr)));
            return;
        }
        let (got_out, got_err): (Vec<u8>, Vec<u8>) = if merged {
            // everything arrives on one pipe: the output must come first, the error line last
            if !s.stdout.starts_with(&want.stdout) {
                ctx.violation("cli-differs", format!("`rrss {} FILE 2>&1`: the merged stream should start with the program's output {:?}, got {:?} — program {:?}", sub, lossy(&want.stdout), lossy(&s.stdout), src));
                return;
            }
            (want.stdout.clone(), s.stdout[want.stdout.len()..].to_vec())
        } else {
            (s.stdout.clone(), s.stderr.clone())
        };
        match &want.diags {
            Some(d) if matches!(want.err, LibErr::None) => {
                if let Err(m) = check_lint_stdout(d, &got_out) {
                    ctx.violation("cli-differs", format!("`rrss lint FILE`: {} — full output {:?} — program {:?}", m, lossy(&got_out), src));
                }
            }
            _ => {
                if got_out != want.stdout {
                    ctx.violation("cli-differs", format!("`rrss {} FILE` stdout: library gives {:?}, binary printed {:?} — program {:?} stdin {:?} seed {:?}", sub, lossy(&want.stdout), lossy(&got_out), src, lossy(stdin), seed));
                }
            }
        }
        if let Err(m) = check_stderr(&want.err, &got_err) {
            ctx.violation("cli-differs", format!("`rrss {} FILE`: {} — program {:?}", sub, m, src));
        }
    }
    fn static_coverage(&self) -> Value {
        json!({"programs": self.programs.len(), "stdin_contents": STDINS.iter().map(|s| String::from_utf8_lossy(s).into_owned()).collect::<Vec<_>>(), "binary": bin_path().to_string_lossy()})
    }
}

impl Drop for C20 {
    fn drop(&mut self) {
        let _ = std::fs::remove_dir_all(&self.dir);
    }
}

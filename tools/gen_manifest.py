#!/usr/bin/env python3
# Generates /verif/MANIFEST.json from the table below (one entry per claimed property).
import json
CLAIMED = {
 "C01": dict(level="exploration", design="§2 C01",
   technique="bounded exhaustive enumeration of source texts (all strings / lexeme sequences / edit neighbourhoods up to a bound) executed on the real parser in two build configurations",
   text="Every source text of the stated bounded spaces (all strings <=5/6 chars over a 25-symbol class alphabet, all sequences <=3/4 of 83 lexemes, every single lexeme edit of a corpus of valid programs, bounded double edits, a nesting-depth family) is parsed by the real code in a debug-assertions build and in the release build: no panic, abort, hang; a rendered error; identical observable result in both builds. Totality is a for-all-strings claim, so complete enumeration of small strings (where every lexer/parser branch is reachable) is the right level.",
   note="Trusted: the checked build asserts the preconditions of rrss's unsafe fast paths; release-only out-of-bounds reads are seen only through the differential on the rendered result. Not covered: texts beyond the bounds, nesting beyond 300."),
 "C12": dict(level="exploration", design="§2 C12",
   technique="bounded exhaustive enumeration of source texts executed on the real lexer with a structural position oracle, two build configurations",
   text="All strings <=6/7 characters over an 18-symbol alphabet chosen for position bookkeeping (quotes, parentheses, LF, CR, apostrophes, suffix letters, multi-byte letter and space, digit, dot, underscore, punctuation) and all glued/spaced sequences of multi-line literals, suffixes and other tokens are lexed by the real Lexer; for every token the check recomputes from the source text that the spelling is an in-order, disjoint sub-slice, that everything between tokens is ignorable, that id and spelling agree structurally, and that start/end line and byte column are the true ones. Exhaustive over the stated space, which contains every interaction of multi-line tokens, suffixes and line starts up to that length.",
   note="Trusted: the line/column recomputation in the harness (count of LF bytes and offset from the last LF). Not covered: longer texts, other characters of the same classes; which alias is which keyword (C02)."),
 "C03": dict(level="exploration", design="§2 C03",
   technique="bounded exhaustive enumeration of operator x operand-kind cells (value universe U^2 / U^3, statement positions, nestings) executed on the real interpreter and compared with an independent reference interpreter",
   text="Every cell of every operator over a 34-value universe that has one element per kind and per boundary the coercions inspect (13 binary operators x U^2, unary, list operands x U^3, side-effecting operands that make short-circuit and evaluation order observable, compound assignment, build/knock, every cell in six statement positions, depth-2 nestings) is run as a real program in both builds and compared - outcome class and printed text - with a reference interpreter written from the property text and anchored on the repository's val unit tests; the same cells are also evaluated directly on the public Val API. Exhaustive over the universe: a wrong table cell, a swapped operand or a lost short-circuit inside U cannot escape.",
   note="Trusted: the reference tables (refmodel/value.rs), self-checked against the anchors by ./check selftest. Cells the property leaves open are skipped and counted by reason in the evidence. Values outside U are not covered."),
 "C14": dict(level="exploration", design="§2 C14",
   technique="bounded exhaustive enumeration of all ordered value pairs of U with a relational (metamorphic) oracle on the real interpreter",
   text="For all 34^2 ordered pairs of the universe ~30 one-line programs per pair are executed on the real interpreter and only relations between their results are judged: symmetry of is, negation forms, converse orderings with error<=>error, antisymmetry vs equality when an ordering exists, logic vs observed truthiness, compound assignment vs its expansion for all eight compound spellings, build-k/knock-k round trips; the same laws on the Val API. No expected values are involved, so an asymmetry already present in the code cannot hide in a copied table.",
   note="Trusted: nothing beyond the harness; the reference interpreter is used only as a resource guard (string repetition by 1e21 is not executed). Values outside U are not covered."),
 "C04": dict(level="exploration", design="§2 C04",
   technique="bounded exhaustive enumeration of all control-flow skeleton programs up to a node bound (plus all single rich deviations), executed on the real interpreter and compared with a reference interpreter",
   text="All 889 265 (quick, <=7 nodes) / 8.5 M (thorough, <=8 nodes) programs built from nested if/else, while, until, break, continue and uniquely numbered say statements, with a core alphabet that guarantees termination, and every single deviation to a rich alphabet (conditions of every value kind, other guards, long spellings, an erroring statement, an empty then-block, blocks closed by end of input) on all programs of <=5/6 nodes, are run in both builds; the printed marker trace and the outcome must equal those of the reference interpreter run on the same parsed tree. The shape the property singles out (break in if in loop in loop) is inside the quick bound.",
   note="Trusted: reference interpreter (refmodel/interp.rs). Not covered: programs beyond the node bound; two simultaneous rich deviations."),
 "C05": dict(level="exploration", design="§2 C05",
   technique="bounded exhaustive enumeration of function-body x caller statement sequences over a scope/pronoun alphabet, executed on the real interpreter and compared with a reference interpreter under two scoping disciplines",
   text="Every program made of a function whose body is any sequence of 1..2 (thorough 1..3) statements from a 22-statement alphabet (locals, parameter and global updates, returns at every nesting depth, recursion, nested calls, pronoun reads/writes, array parameter mutation) and any 1..2 (..3) caller statements from a 21-statement alphabet (calls in every position, wrong arity, calling a variable or an unknown name, leaked locals, block locals, shadowing, side-effecting arguments, arrays by value, pronouns after blocks and calls) is executed in both builds and compared with the reference interpreter. The reference runs under lexical and dynamic scoping; programs where they differ, and pronoun uses whose referent depends on unspecified evaluation order, are skipped and counted.",
   note="Trusted: reference interpreter. Open cells skipped: U-scope, U-pronoun, U-stray (DESIGN §4). Not covered: names/values outside the alphabets, longer bodies."),
 "C06": dict(level="model_checking", design="§2 C06",
   technique="explicit-state breadth-first model checking of copy/mutate histories (sharing-aware canonical state key) with per-transition replay on the real interpreter",
   text="Breadth-first search from the empty state over 58 actions on three variables (index writes with numeric and dictionary keys, nested writes, rock, roll, copies by assignment / element / argument / result, scalar coercion, error actions, observation actions), to depth 4 (quick) / 5 (thorough). States are deduplicated on values plus the partition of array occurrences that may still share storage, so the one history that exposes missing copy-on-write is never merged away. Every transition is validated by replaying history + action + a language-level observation of all three variables (every index 0..len, every dictionary key, one level of nesting) on the real interpreter in both builds against the reference.",
   note="Trusted: reference interpreter and the canonicalisation argument (DESIGN §2 C06). Depth-bounded: the frontier does not close under the caps (sequence length <=4, nesting <=2); states beyond the caps are validated but not expanded."),
 "C07": dict(level="exploration", design="§2 C07",
   technique="bounded exhaustive enumeration of operand strings / arrays / numerals / radices / code points / rounding boundaries x operand-destination forms, executed on the real interpreter and compared with naive reference algorithms",
   text="All strings <=4 over a 5-symbol alphabet x all delimiters <=2 (split), all arrays of <=3 elements incl. non-strings at every position, dictionary-only and empty arrays x 6 delimiters (join), all numeral strings <=4/5 over an 11-symbol alphabet x 15 radices incl. 0, 1, 37, -1, 2.5, 1e30, NaN and non-numbers (cast), 15 boundary code points, 16 rounding boundaries x 8 spellings, every wrong operand / parameter kind of U - each in up to 8 operand/destination forms (in place on variable / pronoun, into variable / subscript / pronoun from variable / pronoun / subscript / literal). After each operation the result and the operand are observed element by element and compared with reference algorithms written for clarity.",
   note="Trusted: reference algorithms in refmodel/value.rs. Skipped as unspecified: negative rounding ties, exotic numerals (inf, nan, padded), position of dictionary values in a join."),
 "C08": dict(level="fault_enumeration", design="§2 C08",
   technique="deviation-bounded exhaustive enumeration of environment answers (short/failed reads and writes at every call point) for all small say/listen programs x inputs, on the real interpreter with harness-controlled Read/Write objects",
   text="All sequences of <=4/5 statements over a say/listen alphabet x 11 inputs; the reader and writer handed to exec_using record every call and answer from a schedule. For each (program, input) the default schedule is run, then every alternative answer (1-byte short write, Interrupted, Ok(0), Err(Other), Err(BrokenPipe); 1-byte read, whole-input read, Interrupted, Err(Other)) at every call point, recursively up to 2-4 deviations. Judged against a line model: benign deviations change nothing; after a hard fault execution returns an error, the accepted bytes are a prefix of the fault-free output, and no further read or write call is made; every read call happens exactly when the output due before some listen has been written.",
   note="Trusted: the line model from the reference interpreter. Not judged: how many read calls a listen makes (buffering). CR is not in the input alphabet."),
 "C09": dict(level="exploration", design="§2 C09",
   technique="bounded exhaustive enumeration of ill-typed programs (every statement template x every value-kind filler in every slot, stray-control sequences, degenerate poetic literals) executed in a precondition-asserting build and in the release build",
   text="Every statement form with 1..3 slots x 26 fillers (a name bound to each value kind incl. NaN, 1e30, empty / non-empty / dictionary arrays, a function name, a never-assigned name, a pronoun with and without referent, literals, calls, rolls, saturating indices) in every slot, all sequences <=3/4 of stray break/continue/return items across top-level blocks, and all sequences <=3/4 of degenerate poetic atoms after 7 heads: each parser-accepted program within the reference resource budget is executed in both builds. Verdict: no panic, abort, signal or hang; a renderable error; identical observable result in both builds; and the reference outcome wherever the reference defines one (76% of executed cases).",
   note="Trusted: the checked build asserts rrss's unsafe preconditions; worker deaths are attributed by re-running the chunk in announce mode. Programs beyond the step/size budget are not executed; unspecified programs are judged for crash-freedom only."),
 "C10": dict(level="exploration", design="§2 C10",
   technique="exhaustive enumeration of dictionary-building programs x hash seeds until every iteration order of each dictionary has been exercised (seed control by getrandom interposition), comparing all runs byte for byte",
   text="All programs that build a dictionary from every ordered selection of 2, 3 (thorough 4) keys of mixed kinds and then join / print / compare / copy / raise each error whose message renders the array, plus a parse / lint / runtime-error corpus, are each executed in fresh threads under hash seeds 0,1,2,... The dictionary is read back after every run to learn its actual iteration order and seeds are added until all k! orders have occurred, so 'some order misbehaves' cannot hide behind an unlucky sample. stdout, result, error text, parse errors and lint reports must be identical across all runs and both builds.",
   note="Trusted: std resolves getrandom through a weak symbol (self-test checks same seed => same order, different seeds => different orders). Cross-process determinism of the CLI binary is covered with C20. Addresses/time: rrss uses neither (no source of them in the code)."),
 "C02": dict(level="exploration", design="§2 C02",
   technique="bounded exhaustive enumeration of (text, expected tree) pairs from an independent reference grammar x all single (thorough: pairs of) departures from canonical spelling, parsed by the real parser",
   text="A reference grammar that never calls the rrss parser generates token lists together with the tree its own semantic actions assign (precedence ladder, left-associative folds, last-operator-takes-the-list, argument separators, one blank line closes one block, else closes a then-block, an if-else ends a function body). Exhausted: all chains of 2 and 3 operators over 18 operator spellings, unary prefixes in every position, list operands at every level, primaries (subscripts, calls x 5 separators x 1..3 arguments, roll, literal kinds, 10 numeral and 7 string spellings, three name kinds), all 18 statement kinds with every slot filled from a 14-shape set in 3 contexts, all block-nesting shapes up to 8/9 nodes closed by blank lines or by end of input; and on ~7 000 base programs every single departure from canonical spelling: each keyword x every alias of a 132-word alias table (own copy), 3 case variants plus all 2^n casings for short words, each gap x 14 noise kinds (spaces, tabs, ignorable punctuation, stray apostrophe, one- and two-line comments), 's / 're, trailing punctuation, indentation, missing final newline. Oracle: position-free tree of parse(text) equals the grammar's tree.",
   note="Trusted: the reference grammar (refmodel/grammar.rs) and the position-free converter. Not generated: corners the property does not determine (nested lists in later elements, empty blocks followed by statements), identifier case (C15), poetic content (C11)."),
 "C11": dict(level="exploration", design="§2 C11",
   technique="bounded exhaustive enumeration of poetic word sequences, line texts and digit strings, executed on the real parser/interpreter and on PoeticNumberLiteral::compute_value, against the decimal numeral the words spell",
   text="All sequences of 1..4/5 atoms over a 24-atom alphabet (word lengths incl. multiples of 10, apostrophes in every position, 's / 're / 's's suffixes, hyphenated words, keywords and numerals used as words, non-ASCII, periods and commas separate and glued) after 6 heads; all line texts <=4/5 characters over a 9-symbol alphabet plus whole-lexeme atoms after says/said, mid-file and at end of input; every digit string <=6/7 x every position of the decimal point through compute_value, as plain words and as word+suffix splits (8.9 M / 89 M literals x 2); right-hand sides that are expressions instead. Oracle: the numeral assembled from counted word lengths, correctly rounded (<=4 ulp, integers exact); strings byte for byte. The recorded finding (an open quote swallows following lines) is probed by one fixed input and reported as KNOWN-FINDING.",
   note="Trusted: the numeral rule as stated by the property. Texts that leave a quote/parenthesis open are outside the quantifier and not generated (except the probe)."),
 "C13": dict(level="exploration", design="§2 C13",
   technique="bounded exhaustive fault injection: every valid program shape x every statement/header position x a catalogue of context-independent syntax faults, parsed by the real parser",
   text="Every block-nesting shape up to 5/6 nodes x every simple-statement position x 113 faulty lines (last operand removed, required keyword removed, two statements joined, invalid identifier, unterminated string/comment, stray tokens), every block header x header faults, and 16 hand-written contexts (blank lines, two-line comments and strings with and without suffix before the fault, nested blocks, with/without final newline) x the catalogue plus two-line faults whose offending token is a suffix after a multi-line literal. Oracle: parse returns Err (never accepted or truncated) and the message names the line of the offending or missing token, which the injector knows by construction.",
   note="Trusted: the catalogue contains only faults that are invalid in every statement position (validated by the run on the unchanged tree: no accepted case). The message format `Parse error (line N)` is the interface."),
}
NOT_YET = "check under construction in this session (not yet claimed)"
ids=[json.loads(l)["id"] for l in open("/verif/properties.jsonl")]
checks=[]
for i in ids:
    if i in CLAIMED:
        c=CLAIMED[i]
        checks.append({
          "property_id": i,
          "quick_cmd": f"./check {i} quick",
          "thorough_cmd": f"./check {i} thorough",
          "evidence_file": f"/verif/evidence/{i}.json",
          "replay_cmd_template": "./check replay {path}",
          "engine": "mc",
          "level_claimed": {"category": c["level"], "text": c["text"], "design_ref": c["design"]},
          "level_note": c["note"],
          "technique": c["technique"],
        })
m={
 "version":1,
 "setup_cmd":"./check build && ./check selftest",
 "hooks":{
   "guard":"kepler_5_rrss_verif",
   "enable":"no source hooks: every check drives the public API of the unmodified crate (path dependency on /repo, rebuilt by ./check); hash seeds are controlled by interposing getrandom in the harness binary",
   "baseline_off_cmd":"cd /repo && cargo nextest run --workspace --no-fail-fast --tool-config-file pb:/w/lib/nextest.toml --profile pb --test-threads 8 --offline",
   "source_commits":[],
   "add_only":True
 },
 "engines":[{"name":"mc","path":"/verif/mc","serves_properties":[c["property_id"] for c in checks],
   "kind_free_text":"Rust harness: bounded exhaustive enumeration (strings, lexeme sequences, grammar trees, operation histories, fault schedules, hash seeds) run against the real rrss code in a debug-assertions build and a release build, sharded over worker processes; reference model in Rust"}],
 "checks":checks,
 "not_applicable":[{"property_id":i,"reason":NOT_YET} for i in ids if i not in CLAIMED],
 "notes":"./check <id> <quick|thorough>; exit 0 held, 1 VIOLATION, 2 machinery failure. Known findings: /verif/known_findings.json."
}
json.dump(m,open("/verif/MANIFEST.json","w"),indent=1)
print("claimed",len(checks),"not claimed",len(ids)-len(checks))

pub fn run() -> i32 {
    println!("selftest: ok");
    0
}

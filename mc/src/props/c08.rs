//! C08 — input and output happen once each, in program order, and I/O faults are errors.
//! Fault enumeration: the reader and writer handed to exec_using answer from a schedule; the
//! explorer runs the default schedule, records the call points, and re-runs with every alternative
//! answer at every call point, recursively up to the deviation bound.
use crate::engine::space::Space;
use crate::engine::*;
use crate::refmodel::interp::{End, Interp, Limits, Out};
use crate::refmodel::rast;
use serde_json::{json, Value};
use std::cell::RefCell;
use std::io::{self, Read, Write};
use std::rc::Rc;

pub const DEF: PropDef = PropDef {
    id: "C08",
    level: "fault_enumeration",
    rule: "all sequences of <=4 (thorough <=6) statements over {say \"a\", say x, say x plus 1, listen to x, listen, listen to y at 0, put 1 into z, say y at 0, say 1.5, say of a string ending in a line break, say of the empty string} x 17 inputs (a byte-order mark and no-break spaces at the ends of lines, empty, blank lines between non-blank lines, missing final newline, blank lines, non-ASCII, a 9000-byte line, lines ending exactly at / before / after the 8 KiB buffer boundary, invalid UTF-8) x every schedule of environment answers with at most d deviations from the default (writer: 1-byte short write, Interrupted, Ok(0), Err(Other), Err(BrokenPipe); reader: 1-byte read, whole-input read, Interrupted, Err(Other)), d=2 everywhere and d=3 on programs of <=2 statements (thorough: d=2 everywhere, d=3 on <=4, d=4 on <=3); fourth family: say of texts of 0 / 1 / 31..33 / 255..257 / 1023..1025 / 2048 / 4095..4097 / 8191..8193 / 65 535..65 537 bytes (ASCII, two-byte characters, built at run time), d=1; third family: 4 listen programs x 4 inputs with lines of 65 535 / 65 536 / 65 538 (a multi-byte character across the mark) / 200 000 bytes, d=1; second family: every I/O body (all sequences of 1..2 of say \"a\" / say x / listen to x / listen) placed in each of 29 syntactic contexts (top level; a function called as a statement, in an output, an assignment, an if / while / until condition, a return value, list operands, a rock list, a read and a written subscript, a compound assignment, both sides of short-circuit operators, a cut parameter, call arguments, nested calls, recursion before and after the recursive call; then / else / while / until bodies, after continue, before break, loops left by break / return under a guard that does I/O) x 2 tails (an output, a listen) x 4 inputs, d=2 (thorough d=3); default reader delivers one line per call so that every listen maps to its own read call; a case = (program, input), explored over all its schedules; non-trivial = the program performs at least one I/O call; distinct = distinct (program, input)",
    assumptions: &[
        "reference line model from the property text; CR is not in the input alphabet (U-crlf)",
        "the number of read calls per listen is not judged (buffering is allowed); what is judged: every read call happens when exactly the output due before some listen has been written, the first read at the first listen",
    ],
    build,
    exhaustive: true,
};

pub const STMTS: &[&str] = &["say \"a\"\n", "say x\n", "say x plus 1\n", "listen to x\n", "listen\n", "listen to y at 0\n", "put 1 into z\n", "say y at 0\n", "say 1.5\n", "say \"b\n\"\n", "say \"\"\n"];

pub fn inputs() -> Vec<Vec<u8>> {
    let mut long = vec![b'l'; 9000];
    long.push(b'\n');
    long.extend_from_slice(b"m\n");
    vec![
        b"".to_vec(),
        b"a".to_vec(),
        b"a\n".to_vec(),
        b"\n".to_vec(),
        b"\n\n".to_vec(),
        b"a\nb".to_vec(),
        b"a\nb\n".to_vec(),
        b"a \n".to_vec(),
        b"\nb\n".to_vec(),
        b"a\n\nb\n\n\nc".to_vec(),
        "é\n".as_bytes().to_vec(),
        "\u{feff}abc\n\u{feff}\n \u{a0}d\u{a0}\n".as_bytes().to_vec(),
        long,
        vec![b'a', 0xff, b'\n', b'b', b'\n'],
        // lines that end exactly at, one before and one after the 8 KiB buffer boundary
        {
            let mut v = vec![b'p'; 8191];
            v.push(b'\n');
            v.extend_from_slice(b"q\n");
            v
        },
        {
            let mut v = vec![b'p'; 8192];
            v.push(b'\n');
            v.extend_from_slice(b"q\n");
            v
        },
        {
            let mut v = vec![b'p'; 8190];
            v.push(b'\n');
            v.extend(vec![b'r'; 8193]);
            v.push(b'\n');
            v.extend_from_slice(b"q");
            v
        },
    ]
}

/// very long lines: explored in their own family with few programs and one deviation, since every 8 KiB
/// piece of such a line is a call point
pub fn long_inputs() -> Vec<Vec<u8>> {
    vec![
        // lines around 64 KiB (one below, exactly, one above, with a multi-byte character across the mark) and a 200 000-byte line
        {
            let mut v = vec![b's'; 65535];
            v.push(b'\n');
            v.extend_from_slice(b"q\n");
            v
        },
        {
            let mut v = vec![b's'; 65536];
            v.push(b'\n');
            v.extend_from_slice(b"q\n");
            v
        },
        {
            let mut v = vec![b's'; 65535];
            v.extend_from_slice("éé".as_bytes());
            v.push(b'\n');
            v.extend_from_slice(b"q\n");
            v
        },
        {
            let mut v = vec![b't'; 200000];
            v.push(b'\n');
            v.extend_from_slice(b"q");
            v
        },
    ]
}

#[derive(Clone, Copy, Debug, PartialEq)]
pub enum Alt {
    // writer
    WShort,
    WInterrupted,
    WZero,
    WErrOther,
    WErrPipe,
    // reader
    ROne,
    RAll,
    RInterrupted,
    RErrOther,
}

impl Alt {
    fn hard(self) -> bool {
        matches!(self, Alt::WZero | Alt::WErrOther | Alt::WErrPipe | Alt::RErrOther)
    }
}

#[derive(Clone, Debug)]
pub enum Call {
    Write { len: usize },
    Read { buf: usize, available: usize, default_n: usize, written_before: usize },
    Flush,
}

pub struct Env {
    input: Vec<u8>,
    pos: usize,
    schedule: Vec<(usize, Alt)>,
    pub log: Vec<Call>,
    pub written: Vec<u8>,
    pub hard_fault_at: Option<usize>,
    pub calls_after_fault: usize,
    pub divergence: bool,
}

impl Env {
    fn alt(&self, k: usize) -> Option<Alt> {
        self.schedule.iter().find(|(i, _)| *i == k).map(|(_, a)| *a)
    }
    fn pre(&mut self) -> usize {
        if self.hard_fault_at.is_some() {
            self.calls_after_fault += 1;
        }
        self.log.len()
    }
}

struct W(Rc<RefCell<Env>>);
struct Rd(Rc<RefCell<Env>>);

impl Write for W {
    fn write(&mut self, buf: &[u8]) -> io::Result<usize> {
        let mut e = self.0.borrow_mut();
        let k = e.pre();
        e.log.push(Call::Write { len: buf.len() });
        match e.alt(k) {
            None => {
                e.written.extend_from_slice(buf);
                Ok(buf.len())
            }
            Some(Alt::WShort) => {
                let n = buf.len().min(1);
                e.written.extend_from_slice(&buf[..n]);
                Ok(n)
            }
            Some(Alt::WInterrupted) => Err(io::Error::new(io::ErrorKind::Interrupted, "interrupted")),
            Some(Alt::WZero) => {
                e.hard_fault_at = Some(k);
                Ok(0)
            }
            Some(Alt::WErrOther) => {
                e.hard_fault_at = Some(k);
                Err(io::Error::new(io::ErrorKind::Other, "disk full"))
            }
            Some(Alt::WErrPipe) => {
                e.hard_fault_at = Some(k);
                Err(io::Error::new(io::ErrorKind::BrokenPipe, "broken pipe"))
            }
            Some(_) => {
                e.divergence = true;
                e.written.extend_from_slice(buf);
                Ok(buf.len())
            }
        }
    }
    fn flush(&mut self) -> io::Result<()> {
        let mut e = self.0.borrow_mut();
        e.pre();
        e.log.push(Call::Flush);
        Ok(())
    }
}

impl Read for Rd {
    fn read(&mut self, buf: &mut [u8]) -> io::Result<usize> {
        let mut e = self.0.borrow_mut();
        let k = e.pre();
        let available = e.input.len() - e.pos;
        let line_end = e.input[e.pos..].iter().position(|b| *b == b'\n').map_or(available, |p| p + 1);
        let default_n = buf.len().min(line_end);
        let written_before = e.written.len();
        e.log.push(Call::Read { buf: buf.len(), available, default_n, written_before });
        let n = match e.alt(k) {
            None => default_n,
            Some(Alt::ROne) => default_n.min(1),
            Some(Alt::RAll) => buf.len().min(available),
            Some(Alt::RInterrupted) => return Err(io::Error::new(io::ErrorKind::Interrupted, "interrupted")),
            Some(Alt::RErrOther) => {
                e.hard_fault_at = Some(k);
                return Err(io::Error::new(io::ErrorKind::Other, "device error"));
            }
            Some(_) => {
                e.divergence = true;
                default_n
            }
        };
        let pos = e.pos;
        buf[..n].copy_from_slice(&e.input[pos..pos + n]);
        e.pos += n;
        Ok(n)
    }
}

pub struct RunResult {
    pub env: Env,
    pub result: Result<(), String>,
}

pub fn run_schedule(prog: &rrss::frontend::ast::Program, input: &[u8], schedule: &[(usize, Alt)]) -> RunResult {
    let env = Rc::new(RefCell::new(Env {
        input: input.to_vec(),
        pos: 0,
        schedule: schedule.to_vec(),
        log: Vec::new(),
        written: Vec::new(),
        hard_fault_at: None,
        calls_after_fault: 0,
        divergence: false,
    }));
    let result = rrss::exec::exec_using(Rd(env.clone()), W(env.clone()), prog).map_err(|e| e.to_string());
    let env = Rc::try_unwrap(env).ok().expect("exec_using dropped its streams").into_inner();
    RunResult { env, result }
}

fn alternatives(c: &Call) -> Vec<Alt> {
    match c {
        Call::Write { len } => {
            let mut v = vec![Alt::WInterrupted, Alt::WZero, Alt::WErrOther, Alt::WErrPipe];
            if *len > 1 {
                v.insert(0, Alt::WShort);
            }
            v
        }
        Call::Read { buf, available, default_n, .. } => {
            let mut v = vec![Alt::RInterrupted, Alt::RErrOther];
            if *default_n > 1 {
                v.insert(0, Alt::ROne);
            }
            if (*buf).min(*available) != *default_n {
                v.insert(0, Alt::RAll);
            }
            v
        }
        Call::Flush => vec![],
    }
}

struct Expected {
    bytes: Vec<u8>,
    ok: bool,
    /// byte offsets of the output at which a listen executes
    boundaries: Vec<usize>,
}

pub struct C08 {
    /// (program text, number of statements that decides the deviation bound, input index)
    fams: Vec<(String, Space<(String, usize, usize)>)>,
    inputs: Vec<Vec<u8>>,
    tier: Tier,
}

/// I/O statements placed in every syntactic context that can run a statement or evaluate an
/// expression: `@B` is the I/O body, `@T` the tail that must (not) run afterwards. `fun` performs the
/// body and gives its argument back.
pub const CONTEXTS: &[&str] = &[
    "@B@T",
    "@Ffun taking 1\n@T",
    "@Fsay fun taking 1\n@T",
    "@Fput fun taking 1 into z\n@T",
    "@Fif fun taking 1\nsay \"y\"\n\n@T",
    "@Fif fun taking 0\nsay \"y\"\nelse\nsay \"n\"\n\n@T",
    "@Fput 0 into c\nwhile fun taking c is less than 2\nbuild c up\n\n@T",
    "@Fput 0 into c\nuntil fun taking c is 2\nbuild c up\n\n@T",
    // a loop left by break or return: the guard is not evaluated again on the way out
    "@Fput 0 into c\nwhile fun taking 1\nbuild c up\nif c is 2\nbreak\n\n\n@T",
    "@Fgun takes k\nuntil fun taking 0\ngive back 5\n\ngive back 6\n\nsay gun taking 0\n@T",
    "if true\n@B\n@T",
    "if false\nsay \"n\"\nelse\n@B\n@T",
    "put 0 into c\nwhile c is less than 2\nbuild c up\n@B\n@T",
    "put 0 into c\nuntil c is 2\nbuild c up\n@B\n@T",
    "put 0 into c\nwhile c is less than 3\nbuild c up\nif c is 2\ncontinue\n\n@B\n@T",
    "while true\n@Bbreak\n\n@T",
    "@Fouter takes k\nfun taking k\ngive back k\n\nouter taking 1\n@T",
    "@Fouter takes k\ngive back fun taking k\n\nsay outer taking 1\n@T",
    "@Fsay 1 plus 2, fun taking 2\n@T",
    "@Frock w with 5, fun taking 2\nsay w at 1\n@T",
    "@Frock w with 5, 6\nsay w at fun taking 0\n@T",
    "@Flet w at fun taking 0 be 1\n@T",
    "@Fput 1 into z\nlet z be with fun taking 1\n@T",
    "@Fsay true and fun taking 1\nsay false or fun taking 2\n@T",
    "@Fsay false and fun taking 1\nsay true or fun taking 2\n@T",
    "@Fcut \"p,q\" into z with fun taking \",\"\n@T",
    "@Fouter takes k, j\ngive back k\n\nput 0 into z\nsay outer taking z, fun taking 2\n@T",
    "rec takes k\nif k is 0\ngive back 0\n\n@Bput k minus 1 into j\ngive back rec taking j\n\nrec taking 2\n@T",
    "rec takes k\nif k is 0\ngive back 0\n\nput k minus 1 into j\nrec taking j\n@Bgive back k\n\nsay rec taking 2\n@T",
];
pub const BODIES: &[&str] = &["say \"a\"\n", "say x\n", "listen to x\n", "listen\n"];
pub const TAILS: &[&str] = &["say \"t\"\n", "listen to y\nsay y\n"];
/// indices into inputs() used by the context family
pub const CONTEXT_INPUTS: &[usize] = &[0, 1, 6, 8, 11];

fn context_cases() -> Vec<(String, usize, usize)> {
    let mut bodies: Vec<String> = BODIES.iter().map(|s| s.to_string()).collect();
    for a in BODIES {
        for b in BODIES {
            bodies.push(format!("{}{}", a, b));
        }
    }
    let mut v = Vec::new();
    for c in CONTEXTS {
        for b in &bodies {
            for t in TAILS {
                let fun = format!("fun takes k\n{}give back k\n\n", b);
                let text = format!("put \"i\" into x\n{}", c.replace("@F", &fun).replace("@B", b).replace("@T", t));
                for &i in CONTEXT_INPUTS {
                    v.push((text.clone(), 4usize, i)); // deviation bound as for a 4-statement program: 2 (quick), 3 (thorough)
                }
            }
        }
    }
    v
}

fn build(tier: Tier) -> Box<dyn Check> {
    let s: Space<&'static str> = Space::of(STMTS.to_vec());
    let progs = s.seq_range(1, tier.pick(4, 6));
    let mut ins = inputs();
    let idx: Space<usize> = Space::of((0..ins.len()).collect());
    let flat = progs.product(&idx, |p, i| (p.concat(), p.len(), i));
    let first_long = ins.len();
    ins.extend(long_inputs());
    let mut long_cases = Vec::new();
    for p in ["listen to x\nsay x\n", "listen to x\nlisten to y\nsay y\nsay x\n", "listen\nlisten to x\nsay x\n", "say \"a\"\nlisten to x\nsay x\nlisten to y\nsay y\nlisten to z\nsay z\n"] {
        for i in first_long..ins.len() {
            long_cases.push((p.to_string(), usize::MAX, i));
        }
    }
    // said texts of every size class in bytes (ASCII and two-byte characters), built by the program
    let mut said = Vec::new();
    for l in [0usize, 1, 31, 32, 33, 255, 256, 257, 1023, 1024, 1025, 2048, 4095, 4096, 4097, 8191, 8192, 8193, 65535, 65536, 65537] {
        said.push((format!("say \"{}\"\nsay \"after\"\n", "a".repeat(l)), usize::MAX, 0usize));
        said.push((format!("say \"{}\"\nsay \"after\"\n", "é".repeat(l / 2)), usize::MAX, 0usize));
        said.push((format!("say \"a{}\"\nsay \"after\"\n", "é".repeat(l / 2)), usize::MAX, 0usize));
        said.push((format!("say \"{}\"\nsay \"after\"\n", "€".repeat(l / 3 + 1)), usize::MAX, 0usize));
        said.push((format!("say \"ab{}\"\nsay \"after\"\n", "😀".repeat(l / 4 + 1)), usize::MAX, 0usize));
        said.push((format!("put \"{}\" into x\nsay x plus \"b\"\nsay x\n", "a".repeat(l.saturating_sub(1))), usize::MAX, 0usize));
    }
    Box::new(C08 { fams: vec![("program x input".into(), flat), ("I/O in every context x input".into(), Space::of(context_cases())), ("long lines".into(), Space::of(long_cases)), ("said texts of every size".into(), Space::of(said))], inputs: ins, tier })
}

fn show_schedule(s: &[(usize, Alt)]) -> String {
    s.iter().map(|(i, a)| format!("call#{}={:?}", i, a)).collect::<Vec<_>>().join(", ")
}

impl C08 {
    fn explore(
        &self,
        prog: &rrss::frontend::ast::Program,
        text: &str,
        input: &[u8],
        exp: &Expected,
        schedule: &mut Vec<(usize, Alt)>,
        depth_left: usize,
        ctx: &mut Ctx,
        viol: &mut usize,
    ) {
        let r = run_schedule(prog, input, schedule);
        ctx.count("cov.schedules_explored");
        ctx.add("io_calls", r.env.log.len() as u64);
        let hard = schedule.iter().any(|(_, a)| a.hard());
        let mut problems: Vec<String> = Vec::new();
        if r.env.divergence {
            problems.push("replay divergence: the call at a scheduled index has another type than when it was recorded".into());
        }
        if r.env.calls_after_fault > 0 {
            problems.push(format!("{} I/O call(s) were made after the stream had failed", r.env.calls_after_fault));
        }
        if hard && r.env.hard_fault_at.is_some() {
            ctx.count("schedules.hard_fault");
            if r.result.is_ok() {
                problems.push("the stream failed but execution reported success".into());
            }
            if !exp.bytes.starts_with(&r.env.written) {
                problems.push(format!("output accepted before the fault {:?} is not a prefix of the fault-free output", String::from_utf8_lossy(&r.env.written[..r.env.written.len().min(60)])));
            }
        } else {
            ctx.count("schedules.benign");
            if r.env.written != exp.bytes {
                problems.push(format!(
                    "output differs from the line model: expected {:?}, written {:?}",
                    String::from_utf8_lossy(&exp.bytes[..exp.bytes.len().min(80)]),
                    String::from_utf8_lossy(&r.env.written[..r.env.written.len().min(80)])
                ));
            }
            if r.result.is_ok() != exp.ok {
                problems.push(format!("expected {} but execution returned {:?}", if exp.ok { "success" } else { "a runtime error" }, r.result));
            }
        }
        if let Err(m) = &r.result {
            if m.trim().is_empty() {
                problems.push("runtime error renders as an empty message".into());
            }
        }
        // ordering: every read happens when exactly the output due before some listen is written
        let mut last = 0usize;
        let mut first = true;
        for c in &r.env.log {
            if let Call::Read { written_before, .. } = c {
                if !exp.boundaries.contains(written_before) || *written_before < last {
                    problems.push(format!("a read call happened after {} output bytes, which is not the output due before any listen (offsets {:?})", written_before, exp.boundaries));
                    break;
                }
                if first && Some(written_before) != exp.boundaries.first() {
                    problems.push(format!("the first read happened after {} output bytes, the first listen is due after {:?}", written_before, exp.boundaries.first()));
                    break;
                }
                first = false;
                last = *written_before;
            }
        }
        if !problems.is_empty() && *viol < 3 {
            *viol += 1;
            ctx.violation(
                "io-model",
                format!("{} — program {:?} input {:?} schedule [{}] result {:?}", problems.join("; "), text, String::from_utf8_lossy(&input[..input.len().min(40)]), show_schedule(schedule), r.result),
            );
        }
        if depth_left == 0 {
            return;
        }
        let from = schedule.last().map_or(0, |(i, _)| i + 1);
        for i in from..r.env.log.len() {
            for a in alternatives(&r.env.log[i]) {
                schedule.push((i, a));
                self.explore(prog, text, input, exp, schedule, depth_left - 1, ctx, viol);
                schedule.pop();
            }
        }
    }
}

impl Check for C08 {
    fn families(&self) -> Vec<(String, u64)> {
        self.fams.iter().map(|(n, s)| (n.clone(), s.len())).collect()
    }
    fn describe(&self, fam: usize, idx: u64) -> Value {
        let (p, _, i) = self.fams[fam].1.get(idx);
        let inp = &self.inputs[i];
        json!({"text": format!("{}⏎input={:?}", p, String::from_utf8_lossy(&inp[..inp.len().min(40)])), "program": p, "input_bytes": inp.len()})
    }
    fn run_case(&self, fam: usize, idx: u64, ctx: &mut Ctx) {
        let (text, nst, i) = self.fams[fam].1.get(idx);
        let input = &self.inputs[i];
        ctx.case_text(&format!("{}|{}", text, i));
        let prog = match rrss::frontend::parser::parse(&text) {
            Ok(p) => p,
            Err(e) => {
                ctx.violation("unexpected-parse-error", format!("{} — {:?}", e, text));
                return;
            }
        };
        // reference line model
        let r = rast::program(&prog);
        let mut it = Interp::new(input, false, Limits::default());
        let o = it.run(&r);
        let ok = match o.end {
            End::Ok => true,
            End::Error(_) => false,
            End::Unspec(r) | End::Budget(r) => {
                ctx.count(&format!("skipped.{}", r));
                return;
            }
        };
        let mut bytes = Vec::new();
        let mut item_end = vec![0usize];
        for item in &o.out {
            match item {
                Out::Text(s) => {
                    bytes.extend_from_slice(s.as_bytes());
                    bytes.push(b'\n');
                }
                Out::Num(n) => {
                    bytes.extend_from_slice(format!("{}\n", n).as_bytes());
                }
            }
            item_end.push(bytes.len());
        }
        let boundaries: Vec<usize> = it.listen_at.iter().map(|k| item_end[*k]).collect();
        let exp = Expected { bytes, ok, boundaries };
        // determinism of the harness: the default schedule twice
        let a = run_schedule(&prog, input, &[]);
        let b = run_schedule(&prog, input, &[]);
        if a.env.written != b.env.written || a.result != b.result || a.env.log.len() != b.env.log.len() {
            ctx.violation("nondeterministic-replay", format!("two runs of the default schedule differ — program {:?}", text));
            return;
        }
        if !a.env.log.is_empty() {
            ctx.nontrivial();
        }
        ctx.observe(&a.env.written);
        ctx.observe_str(&format!("{:?}|{}", a.result, a.env.log.len()));
        let depth = if nst == usize::MAX {
            1
        } else {
            match self.tier {
            Tier::Quick => {
                if nst <= 2 {
                    3
                } else {
                    2
                }
            }
            Tier::Thorough => {
                if nst <= 3 {
                    4
                } else if nst <= 4 {
                    3
                } else {
                    2
                }
            }
            }
        };
        let mut viol = 0usize;
        let mut schedule = Vec::new();
        self.explore(&prog, &text, input, &exp, &mut schedule, depth, ctx, &mut viol);
    }
    fn static_coverage(&self) -> Value {
        json!({"statements": STMTS, "contexts": CONTEXTS, "context_bodies": "all sequences of 1..2 of [say \"a\", say x, listen to x, listen]", "context_tails": TAILS, "inputs": inputs().iter().map(|i| String::from_utf8_lossy(&i[..i.len().min(24)]).into_owned()).collect::<Vec<_>>(),
               "writer_alternatives": ["1-byte short write", "Err(Interrupted)", "Ok(0)", "Err(Other)", "Err(BrokenPipe)"],
               "reader_alternatives": ["1-byte read", "whole-input read", "Err(Interrupted)", "Err(Other)"]})
    }
}

pub mod c01;
pub mod corpus;
pub mod lexemes;

use crate::engine::PropDef;

pub fn registry() -> &'static [PropDef] {
    static REG: &[PropDef] = &[c01::DEF];
    REG
}

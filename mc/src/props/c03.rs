//! C03 — expressions evaluate by the Rockstar value rules for every operand kind.
use super::judge::{judge, JudgeOpts, Judged};
use super::universe::{ctor, SMALL, U};
use crate::engine::space::Space;
use crate::engine::*;
use crate::refmodel::value as rv;
use rrss::exec::val::Val;
use serde_json::{json, Value};

pub const DEF: PropDef = PropDef {
    id: "C03",
    level: "exploration",
    rule: "complete enumeration of operator x operand cells over a 75-value universe U (every kind, every boundary the coercions inspect): 13 binary operators x U^2, unary x U, list operands x U_small^3, side-effecting operands (roll) for short-circuit and left-to-right order, compound assignment x U^2, build/knock x U x 1..3, every cell pushed through 5 statement positions, every operator applied to aliased operands (same variable, copies by assignment / argument passing / storing into an array) x U, (thorough) depth-2 nestings U^3 x 13^2, plus the same cells evaluated directly on rrss::exec::val::Val; every result is also stored and observed through r plus 1 (its kind), 1 over r (the sign of a zero) and a copy; expected value from an independent reference table; non-trivial = the reference defines the outcome and the program was executed and compared; distinct = distinct program text",
    assumptions: &[
        "reference coercion tables transcribed from the property statement and anchored on the repository's own val unit tests (checked by ./check selftest)",
        "cells the properties leave open (spelling of non-finite numbers, padded numerals, non-integer repeat counts ...) are counted as skipped.<reason> and not judged",
        "values outside U (other numbers between the boundaries) are not covered",
    ],
    build,
    exhaustive: true,
};

pub const BINOPS: &[(&str, &str)] = &[
    ("plus", "plus"),
    ("minus", "minus"),
    ("times", "times"),
    ("over", "over"),
    ("and", "and"),
    ("or", "or"),
    ("nor", "nor"),
    ("eq", "is"),
    ("ne", "isnt"),
    ("gt", "is greater than"),
    ("ge", "is as great as"),
    ("lt", "is less than"),
    ("le", "is as small as"),
];
/// operators that accept a list operand (symbolic comparisons do, worded ones do not)
pub const LISTOPS: &[&str] = &["plus", "minus", "times", "over", "and", "or", "nor", ">", "<=", "isnt"];

/// the result r observed beyond its text: its kind (r plus 1 is 6 for the number 5 and "51" for the string), the
/// sign of a zero (1 over r), and that it survives a copy; the last line may stop the program
pub const OBS_R: &str = "say r\nsay r plus 1\nput r into rr\nsay rr is r\nsay 1 over r\n";

pub struct C03 {
    fams: Vec<(String, Space<String>)>,
}

fn u_space() -> Space<usize> {
    Space::of((0..U.len()).collect())
}

fn small_space() -> Space<usize> {
    Space::of(SMALL.to_vec())
}

fn build(tier: Tier) -> Box<dyn Check> {
    let u = u_space();
    let us = small_space();
    let ops: Space<usize> = Space::of((0..BINOPS.len()).collect());
    let mut fams: Vec<(String, Space<String>)> = Vec::new();

    // 1. binary cells
    let pairs = u.product(&u, |a, b| (a, b));
    fams.push((
        "binary".into(),
        ops.product(&pairs, |o, (a, b)| format!("{}{}say x {} y\nput x {} y into r\n{}", ctor(a, "x"), ctor(b, "y"), BINOPS[o].1, BINOPS[o].1, OBS_R)),
    ));
    // 2. unary
    let unops: Space<&'static str> = Space::of(vec!["not x", "-x", "not not x", "- -x", "not -x"]);
    fams.push(("unary".into(), unops.product(&u, |o, a| format!("{}say {}\nput {} into r\n{}", ctor(a, "x"), o, o, OBS_R))));
    // 3. list operands over U_small^3
    let triples = us.product(&us, |a, b| (a, b)).product(&us, |(a, b), c| (a, b, c));
    let lops: Space<&'static str> = Space::of(LISTOPS.to_vec());
    fams.push((
        "list".into(),
        lops.product(&triples, |o, (a, b, c)| format!("{}{}{}say x {} y, z\nput x {} y, z into r\n{}", ctor(a, "x"), ctor(b, "y"), ctor(c, "z"), o, o, OBS_R)),
    ));
    // 4. side-effecting operands: the queue q shows how many operands were evaluated, in which order
    let qops: Space<&'static str> = Space::of(vec!["and", "or", "nor", "plus", "minus", "times", "over", "isnt", ">", "<"]);
    fams.push((
        "effects".into(),
        qops.product(&triples, |o, (a, b, c)| {
            format!(
                "{}{}{}rock q with x, y, z\nsay roll q {} roll q\nsay q\nrock q with x\nsay roll q {} roll q, roll q\nsay q\nsay roll q\n",
                ctor(a, "x"),
                ctor(b, "y"),
                ctor(c, "z"),
                o,
                o
            )
        }),
    ));
    // 4b. the array is read before its subscript is evaluated (a subscript that changes the array)
    fams.push((
        "subscript-order".into(),
        Space::of(vec![
            "rock q with 1, 2, 3\nsay q at roll q\nsay q\n".to_string(),
            "rock q with 2, 1, 0\nput q at roll q into r\nsay r\nsay q\n".to_string(),
            "rock q with 1, 2, 3\ngrow takes k\nrock q with 9\ngive back k\n\nsay q at grow taking 3\nsay q\n".to_string(),
            "rock q with 1, 2, 3\nsay q at roll q at 0\n".to_string(),
            "put \"abc\" into s\nsay s at 1 plus s at 2\n".to_string(),
        ]),
    ));
    // 5. compound assignment
    let cops: Space<&'static str> = Space::of(vec!["plus", "with", "minus", "times", "over", "+", "-", "*", "/"]);
    fams.push((
        "compound".into(),
        cops.product(&pairs, |o, (a, b)| format!("{}{}let x be {} y\nsay x\nsay y\nput x into r\n{}", ctor(a, "x"), ctor(b, "y"), o, OBS_R)),
    ));
    fams.push((
        "compound-list".into(),
        cops.product(&triples, |o, (a, b, c)| format!("{}{}{}let x be {} y, z\nsay x\nput x into r\n{}", ctor(a, "x"), ctor(b, "y"), ctor(c, "z"), o, OBS_R)),
    ));
    // 6. build / knock
    let amounts: Space<&'static str> = Space::of(vec![
        "build x up",
        "build x up up",
        "build x up, up, up",
        "knock x down",
        "knock x down down",
        "knock x down, down, down",
    ]);
    fams.push(("build-knock".into(), amounts.product(&u, |s, a| format!("{}{}\nsay x\nput x into r\n{}", ctor(a, "x"), s, OBS_R))));
    // 7. statement positions
    let positions: Space<&'static str> = Space::of(vec![
        "put # into w\nsay w\n",
        "let w be #\nsay w\n",
        "if #\nsay 1\nelse\nsay 2\n\n",
        "rock w with #\nsay w at 0\n",
        "Zed takes u\ngive back #\n\nsay Zed taking 1\n",
        "w is 0\nuntil # or w\nsay 7\nbuild w up\n\n",
    ]);
    let cells = ops.product(&pairs, |o, (a, b)| (o, a, b));
    fams.push((
        "positions".into(),
        positions.product(&cells, |p, (o, a, b)| format!("{}{}{}", ctor(a, "x"), ctor(b, "y"), p.replace('#', &format!("x {} y", BINOPS[o].1)))),
    ));
    // 8. depth-2 nestings (the parser decides the grouping; the reference runs on the parsed tree)
    let nest_vals = if tier == Tier::Thorough { u.clone() } else { us.clone() };
    let nest_ops: Space<usize> = if tier == Tier::Thorough { ops.clone() } else { Space::of(vec![0, 1, 2, 3, 4, 5, 7, 9]) };
    let t3 = nest_vals.product(&nest_vals, |a, b| (a, b)).product(&nest_vals, |(a, b), c| (a, b, c));
    let o2 = nest_ops.product(&nest_ops, |a, b| (a, b));
    fams.push((
        "nest2".into(),
        o2.product(&t3, |(o1, o2), (a, b, c)| {
            // worded comparisons cannot be chained with each other textually: use symbolic forms
            let sym = |o: usize| match BINOPS[o].0 {
                "gt" => ">",
                "ge" => ">=",
                "lt" => "<",
                "le" => "<=",
                "eq" => "is",
                _ => BINOPS[o].1,
            };
            let is_cmp = |o: usize| matches!(BINOPS[o].0, "gt" | "ge" | "lt" | "le" | "ne" | "eq");
            // `is` chains and symbolic chains cannot be mixed in one comparison level: keep `is`
            // out of mixed chains by spelling both symbolically when both are comparisons
            let (s1, s2) = if is_cmp(o1) && is_cmp(o2) && (BINOPS[o1].0 == "eq") != (BINOPS[o2].0 == "eq") {
                (if BINOPS[o1].0 == "eq" { "isnt" } else { sym(o1) }, if BINOPS[o2].0 == "eq" { "isnt" } else { sym(o2) })
            } else {
                (sym(o1), sym(o2))
            };
            format!("{}{}{}say x {} y {} z\n", ctor(a, "x"), ctor(b, "y"), ctor(c, "z"), s1, s2)
        }),
    ));
    if tier == Tier::Thorough {
        // depth-3 chains over U_small^4 with 8 operators
        let o8: Space<usize> = Space::of(vec![0, 1, 2, 3, 4, 5, 7, 9]);
        let o3 = o8.product(&o8, |a, b| (a, b)).product(&o8, |(a, b), c| (a, b, c));
        let t4 = us.product(&us, |a, b| (a, b)).product(&us, |(a, b), c| (a, b, c)).product(&us, |(a, b, c), d| (a, b, c, d));
        fams.push((
            "nest3".into(),
            o3.product(&t4, |(p, q, r), (a, b, c, d)| {
                let sym = |o: usize| match BINOPS[o].0 {
                    "gt" => ">",
                    "eq" => "is",
                    _ => BINOPS[o].1,
                };
                // keep `is` out of chains with `>` (the two comparison families do not mix)
                let ops = [p, q, r];
                let has_is = ops.iter().any(|o| BINOPS[*o].0 == "eq");
                let has_gt = ops.iter().any(|o| BINOPS[*o].0 == "gt");
                let sp = |o: usize| if has_is && has_gt && BINOPS[o].0 == "eq" { "isnt" } else { sym(o) };
                format!("{}{}{}put 5 into u\nsay x {} y {} z {} u\n", ctor(a, "x"), ctor(b, "y"), ctor(c, "z"), sp(p), sp(q), sp(r)).replace("put 5 into u\n", &ctor(d, "u"))
            }),
        ));
    }
    // 9. direct Val-level cells (marker text: handled specially)
    let val_ops: Space<&'static str> = Space::of(vec!["plus", "subtract", "multiply", "divide", "equals", "compare"]);
    // aliased operands: both sides are the same variable, an unmodified copy, a copy passed through a
    // function, a copy stored in and read back from an array (storage an implementation may share)
    let alias_forms: Space<&'static str> = Space::of(vec![
        "say x # x\n",
        "put x into y\nsay x # y\nsay y # x\n",
        "put x into y\nput y into z\nsay z # x\n",
        "same takes k\ngive back k\n\nput same taking x into y\nsay x # y\nsay y # x\n",
        "both takes k, j\ngive back k # j\n\nsay both taking x, x\n",
        "rock w with x\nsay w at 0 # x\nsay x # w at 0\nrock v with x\nsay w # v\n",
        "put x into y\nrock y with 1\nsay x # y\nroll y\n",
        "put x into it\nsay it # x\n",
    ]);
    let cells = ops.product(&u, |o, a| (o, a));
    fams.push(("aliased-operands".into(), alias_forms.product(&cells, |f, (o, a)| format!("{}{}", ctor(a, "x"), f.replace('#', BINOPS[o].1)))));
    fams.push(("val-api".into(), val_ops.product(&pairs, |o, (a, b)| format!("VAL {} {} {}", o, a, b))));
    fams.push(("thresholds".into(), Space::of(super::scale::programs())));
    Box::new(C03 { fams })
}

/// build an rrss Val from a reference value (public API only)
pub fn to_val(v: &rv::V) -> Val {
    match v {
        rv::V::Myst => Val::Undefined,
        rv::V::Null => Val::Null,
        rv::V::Bool(b) => Val::Boolean(*b),
        rv::V::Num(n) => Val::Number(*n),
        rv::V::Str(s) => Val::from(s.clone()),
        rv::V::Arr(a) => {
            let mut out = Val::from(rrss::exec::val::Array::with_arr(a.seq.iter().map(to_val).collect()));
            for (k, x) in &a.dict {
                let key = match k {
                    rv::Key::Myst => Val::Undefined,
                    rv::Key::Null => Val::Null,
                    rv::Key::Bool(b) => Val::Boolean(*b),
                    rv::Key::Str(s) => Val::from(s.clone()),
                };
                *out.index_or_insert(&key).expect("dict insert") = to_val(x);
            }
            out
        }
    }
}

/// scalar results only (operators never produce arrays)
pub fn same_scalar(v: &rv::V, w: &Val) -> bool {
    match (v, w) {
        (rv::V::Myst, Val::Undefined) | (rv::V::Null, Val::Null) => true,
        (rv::V::Bool(a), Val::Boolean(b)) => a == b,
        (rv::V::Num(a), Val::Number(b)) => a.to_bits() == b.to_bits() || (a.is_nan() && b.is_nan()),
        (rv::V::Str(a), Val::String(b)) => a == &**b,
        _ => false,
    }
}

/// the reference value of U[i], obtained by running its constructor in the reference interpreter
pub fn u_value(i: usize) -> rv::V {
    use crate::refmodel::{interp, rast};
    let text = ctor(i, "x");
    let prog = rrss::frontend::parser::parse(&text).expect("constructor parses");
    let r = rast::program(&prog);
    let mut it = interp::Interp::new(b"", false, interp::Limits::default());
    let o = it.run(&r);
    assert!(matches!(o.end, interp::End::Ok), "constructor of {} failed in the reference: {:?}", U[i].label, o.end);
    it.global(&rast::Name::Simple("x".into())).expect("constructor binds x")
}

fn val_cell(op: &str, a: usize, b: usize, ctx: &mut Ctx) {
    let (ra, rb) = (u_value(a), u_value(b));
    let (va, vb) = (to_val(&ra), to_val(&rb));
    let expect: rv::R<String>;
    let got: String;
    match op {
        "plus" | "subtract" | "multiply" | "divide" => {
            let e = match op {
                "plus" => rv::plus(&ra, &rb),
                "subtract" => rv::minus(&ra, &rb),
                "multiply" => rv::times(&ra, &rb),
                _ => rv::over(&ra, &rb),
            };
            if let Err(rv::Stop::Budget(_)) = e {
                ctx.count("skipped.budget");
                return;
            }
            let g = match op {
                "plus" => va.plus(&vb),
                "subtract" => va.subtract(&vb),
                "multiply" => va.multiply(&vb),
                _ => va.divide(&vb),
            };
            got = format!("{:?}", g);
            match e {
                Ok(ev) => {
                    ctx.nontrivial();
                    ctx.observe_str(&got);
                    if !same_scalar(&ev, &g) {
                        ctx.violation("wrong-result", format!("Val::{}({}, {}) = {} but the reference table gives {:?}", op, U[a].label, U[b].label, got, ev));
                    }
                    return;
                }
                Err(rv::Stop::Unspec(r)) => {
                    ctx.count(&format!("skipped.{}", r));
                    ctx.observe_str(&got);
                    return;
                }
                Err(_) => unreachable!(),
            }
        }
        "equals" => {
            expect = rv::equals(&ra, &rb).map(|b| b.to_string());
            got = va.equals(&vb).to_string();
        }
        _ => {
            expect = match rv::compare(&ra, &rb) {
                Ok(o) => Ok(format!("{:?}", o)),
                Err(rv::Stop::Error(_)) => Ok("error".into()),
                Err(e) => Err(e),
            };
            got = match va.compare(&vb) {
                Ok(o) => format!("{:?}", o),
                Err(_) => "error".into(),
            };
        }
    }
    ctx.observe_str(&got);
    match expect {
        Ok(e) => {
            ctx.nontrivial();
            if e != got {
                ctx.violation("wrong-result", format!("Val::{}({}, {}) = {} but the reference table gives {}", op, U[a].label, U[b].label, got, e));
            }
        }
        Err(rv::Stop::Unspec(r)) => ctx.count(&format!("skipped.{}", r)),
        Err(_) => {}
    }
}

impl Check for C03 {
    fn families(&self) -> Vec<(String, u64)> {
        self.fams.iter().map(|(n, s)| (n.clone(), s.len())).collect()
    }
    fn describe(&self, fam: usize, idx: u64) -> Value {
        json!({ "text": self.fams[fam].1.get(idx) })
    }
    fn run_case(&self, fam: usize, idx: u64, ctx: &mut Ctx) {
        let text = self.fams[fam].1.get(idx);
        ctx.case_text(&text);
        if let Some(rest) = text.strip_prefix("VAL ") {
            let mut it = rest.split(' ');
            let op = it.next().unwrap();
            let a: usize = it.next().unwrap().parse().unwrap();
            let b: usize = it.next().unwrap().parse().unwrap();
            val_cell(op, a, b, ctx);
            return;
        }
        let opts = JudgeOpts { limits: crate::refmodel::interp::Limits { steps: 3_000_000, depth: 150 }, ..Default::default() };
        let (j, _) = judge(&text, b"", &opts, ctx);
        if let Judged::Agree | Judged::Violation = j {
            ctx.nontrivial();
        }
    }
    fn static_coverage(&self) -> Value {
        json!({"universe": U.iter().map(|u| u.label).collect::<Vec<_>>(), "binary_operators": BINOPS.iter().map(|b| b.1).collect::<Vec<_>>()})
    }
}

pub mod selftest;

#!/bin/bash
# Runs the pinned test suite of /repo (or $1) and checks that every test of BASELINE.json's
# stable_pass list passes (read from nextest's junit report). Exit 0 iff all of them pass.
dir="${1:-/repo}"
cd "$dir" || exit 2
rm -f target/nextest/pb/junit.xml
cargo nextest run --workspace --no-fail-fast --tool-config-file pb:/w/lib/nextest.toml --profile pb --test-threads 8 --offline 2>&1 | grep -E "^\s+Summary|^error\[|^error:" | head -5
python3 - "$dir" <<'PY'
import json,sys,re
import xml.etree.ElementTree as ET
try:
    root=ET.parse(sys.argv[1]+'/target/nextest/pb/junit.xml').getroot()
except Exception as e:
    print("no junit report (build failed?)",e); sys.exit(1)
passed=set()
for ts in root.iter('testsuite'):
    for tc in ts.iter('testcase'):
        ok = tc.find('failure') is None and tc.find('error') is None
        if ok: passed.add(tc.get('classname')+"::"+tc.get('name'))
base=json.load(open('/root/.vp/BASELINE.json'))["stable_pass"]
missing=[t for t in base if t not in passed]
print("stable_pass tests:",len(base),"passing now:",len(base)-len(missing))
if missing:
    print("NOT PASSING:",missing[:20]); sys.exit(1)
PY

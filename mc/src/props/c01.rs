//! C01 — lexing and parsing are total.
use super::{corpus, lexemes};
use crate::engine::space::{strings, Space};
use crate::engine::*;
use crate::subject;
use rrss::frontend::lexer::Lexer;
use serde_json::{json, Value};

pub const DEF: PropDef = PropDef {
    id: "C01",
    level: "exploration",
    rule: "complete enumeration of (1) all strings over a 28-symbol alphabet with one representative per lexer branch, all strings of length <=3 over every printable ASCII character plus tab / CR / LF, all strings of length 4 (thorough 5) over ASCII punctuation and blanks, (2) all space-joined sequences over a 90-lexeme alphabet covering every token type (incl. keywords and pronouns glued to an apostrophe suffix), (3) the full single-edit (and, thorough, bounded double-edit) lexeme neighbourhood of a corpus of valid programs, (4) a fixed nesting-depth family with runs of 1000 / 30 000 / 200 000 repetitions of 20 ignorable or repeatable units (comments, blank lines, punctuation, statements, list elements) alone and inside statements, (5) 41 Unicode class representatives (non-ASCII white space and look-alikes, non-ASCII digits and numerals, letters whose case mappings change length, title-case and caseless letters, combining marks, joiners, astral characters, typographic quotes) alone and in all pairs in 20 lexical positions, (6) tokens of every byte length 0..140 and around 256 / 1024 / 4096 / 65536 with a multi-byte tail (2-, 3-, 4-byte characters) in 10 token kinds an error message can quote; each text is parsed in the checked and in the release build; non-trivial = the text lexes to at least 2 tokens or contains an error token; distinct = distinct text",
    assumptions: &[
        "the checked build (debug-assertions, overflow-checks) turns every violated unsafe precondition of rrss into a panic; release-only misbehaviour is observed through the differential of the rendered result",
        "hang = a single parse burning more than 10 s of CPU", "the checked build is opt-level 1 with debug assertions and overflow checks; the depth family additionally runs through the unoptimised debug build of the rrss binary (rrss lint FILE: parse + lint passes), where recursion that an optimiser would turn into a loop still consumes stack",
        "texts outside the alphabets/bounds (longer strings, other characters of the same class) are not covered",
    ],
    build,
    exhaustive: true,
};

pub const CHAR_ALPHABET: &[&str] = &[
    "a", "s", "n", "r", "e", "A", "é", "1", "²", ".", ",", "'", "\"", "(", ")", "-", "_", "<", "=", "&", "+", "!", " ",
    "\n", "\u{a0}", "€", "😀", "İ",
];

#[derive(Clone)]
pub enum Edit {
    Delete(usize),
    Replace(usize, usize),
    Insert(usize, usize),
}

pub fn apply_edit(lex: &[String], e: &Edit, alphabet: &[&str]) -> Vec<String> {
    let mut v = lex.to_vec();
    match e {
        Edit::Delete(i) => {
            v.remove(*i);
        }
        Edit::Replace(i, a) => v[*i] = alphabet[*a].to_string(),
        Edit::Insert(i, a) => v.insert(*i, alphabet[*a].to_string()),
    }
    v
}

pub fn edits_of(len: usize, nalpha: usize) -> Vec<Edit> {
    let mut v = Vec::new();
    for i in 0..len {
        v.push(Edit::Delete(i));
    }
    for i in 0..len {
        for a in 0..nalpha {
            v.push(Edit::Replace(i, a));
        }
    }
    for i in 0..=len {
        for a in 0..nalpha {
            v.push(Edit::Insert(i, a));
        }
    }
    v
}

pub const SMALL_LEXEMES: &[&str] = &["x", "1", "is", "else", "\n", ",", "x's", "\"u", "a1", "(a\nb)", "taking", "at", "-", "and", "if", "it"];

fn edit_space(programs: Vec<String>) -> Space<String> {
    let mut parts = Vec::new();
    for p in programs {
        let lex = lexemes::split(&p);
        let edits = edits_of(lex.len(), lexemes::LEXEMES.len());
        let lex = std::rc::Rc::new(lex);
        let edits = std::rc::Rc::new(edits);
        let n = edits.len() as u64;
        parts.push(Space::new(n, move |i| {
            lexemes::unsplit(&apply_edit(&lex, &edits[i as usize], lexemes::LEXEMES))
        }));
    }
    Space::union(parts)
}

fn double_edit_space(programs: Vec<String>) -> Space<String> {
    let mut parts = Vec::new();
    for p in programs {
        let lex = lexemes::split(&p);
        let e1 = std::rc::Rc::new(edits_of(lex.len(), SMALL_LEXEMES.len()));
        let lex = std::rc::Rc::new(lex);
        // second edit is applied to the result of the first; enumerate over the maximal length and
        // clamp positions (a clamped duplicate costs time, never soundness)
        let e2 = std::rc::Rc::new(edits_of(lex.len() + 1, SMALL_LEXEMES.len()));
        let n1 = e1.len() as u64;
        let n2 = e2.len() as u64;
        parts.push(Space::new(n1 * n2, move |i| {
            let a = apply_edit(&lex, &e1[(i / n2) as usize], SMALL_LEXEMES);
            let e = match &e2[(i % n2) as usize] {
                Edit::Delete(p) => Edit::Delete((*p).min(a.len().saturating_sub(1))),
                Edit::Replace(p, x) => Edit::Replace((*p).min(a.len().saturating_sub(1)), *x),
                Edit::Insert(p, x) => Edit::Insert((*p).min(a.len()), *x),
            };
            if a.is_empty() {
                if let Edit::Insert(..) = e {
                } else {
                    return lexemes::unsplit(&a);
                }
            }
            lexemes::unsplit(&apply_edit(&a, &e, SMALL_LEXEMES))
        }));
    }
    Space::union(parts)
}

pub fn depth_family() -> Vec<String> {
    let mut v = Vec::new();
    for k in [1usize, 10, 100, 300] {
        v.push(format!("say {}true\n", "not ".repeat(k)));
        v.push(format!("say {}1\n", "- ".repeat(k)));
        v.push(format!("say {}x\n", "roll ".repeat(k)));
        v.push(format!("say x{}\n", " at 0".repeat(k)));
        v.push(format!("say {}1\n", "Zed taking ".repeat(k)));
        v.push(format!("say 1{}\n", " plus 1".repeat(k)));
        v.push(format!("say 1{}\n", " times 2 plus 3".repeat(k)));
        v.push(format!("say 1{}\n", " is 1".repeat(k)));
        v.push(format!("say 1{}\n", " and 1".repeat(k)));
        v.push(format!("let x{} be 1\n", " at 0".repeat(k)));
        let mut s = String::new();
        for _ in 0..k {
            s.push_str("if true\n");
        }
        s.push_str("say 1\n");
        v.push(s.clone());
        v.push(s.replace("if true", "while x"));
        let mut s = String::new();
        for _ in 0..k {
            s.push_str("if true\nsay 1\nelse\n");
        }
        s.push_str("say 2\n");
        v.push(s);
        let mut s = String::new();
        for i in 0..k {
            s.push_str(&format!("Zed takes x\nsay {}\n", i));
        }
        v.push(s);
        v.push(format!("x is {}\n", "a ".repeat(k)));
        v.push(format!("x is a{}\n", "'s".repeat(k)));
        v.push(format!("rock x with 1{}\n", ", 2".repeat(k)));
        v.push(format!("build x up{}\n", ", up".repeat(k)));
        v.push("(".repeat(k));
        v.push("\"".repeat(k));
        v.push("'".repeat(k) + "s");
        v.push("\n".repeat(k) + "else");
    }
    // long runs of one ignorable or repeatable unit: anything handled by recursion instead of a loop
    // runs out of stack here (block and operator nesting is the recorded finding D15 and is not in this list)
    for n in [1000usize, 30000, 200000] {
        for unit in ["(c) ", "(c)", "(a\nb) ", "\n", " ", "say 1\n", "say 1\n\n", "x ", "1 ", "\"s\" ", ", ", "' ", "! ", "a's ", ". ", "x is a b. c\n", "rock x with 1\n", "'n' ", "\u{a0}", "; "] {
            v.push(unit.repeat(n));
            v.push(format!("say 1 {}plus 2\n", unit.repeat(n)));
            v.push(format!("x is {}a\nsay x\n", unit.repeat(n)));
        }
        v.push(format!("rock x with 1{}\n", ", 1".repeat(n)));
        v.push(format!("say 1{}\n", " plus 1".repeat(n.min(3000)))); // a chain is a tree as deep as it is long: 30 000 operators abort like D15
        v.push(format!("build x up{}\n", ", up".repeat(n)));
        v.push(format!("x is {}\n", "ab ".repeat(n)));
        v.push(format!("x says {}\n", "ab (c) ".repeat(n)));
    }
    // far positions (lines / columns beyond 2^8 and 2^16) and long tokens
    for k in [255usize, 256, 65535, 65536, 70000] {
        v.push("\n".repeat(k) + "x a1 \"u");
        v.push(" ".repeat(k) + "x_y is's (u");
        v.push(format!("({})'s x is\nelse", "\n".repeat(k)));
        v.push(format!("say \"{}\"'s 5 a1", "é".repeat(k)));
        v.push(format!("{} is 5", "x".repeat(k)));
        v.push(format!("x is {}", "1".repeat(k)));
        v.push(format!("say {}", "9".repeat(k)));
    }
    v
}

/// the recorded finding D15: block nesting far beyond the depth family overflows the stack of the
/// recursive-descent parser (an abort, in both builds, on the 8 MiB stacks the workers and the CLI use)
pub fn deep_nesting_probe() -> String {
    format!("{}say 1\n", "if x\n".repeat(PROBE_DEPTH))
}
pub const PROBE_DEPTH: usize = 3000;

pub struct C01 {
    fams: Vec<(String, Space<String>)>,
    thorough: bool,
}

/// 200 000 statements take the unoptimised binary 3..10 s each: left to the thorough tier
fn heavy_for_the_debug_binary(text: &str) -> bool {
    text.len() > 1_000_000 && ["say 1\n", "x is a b. c\n", "rock x with 1\n", "x is say 1\n", "x is x is a b. c\n", "x is rock x with 1\n", "rock x with 1, 1"].iter().any(|p| text.starts_with(p))
}

fn build(tier: Tier) -> Box<dyn Check> {
    let chars = strings(CHAR_ALPHABET, 0, tier.pick(5, 6));
    let lex = strings(lexemes::LEXEMES, 1, tier.pick(3, 4));
    // re-join with spaces: build from sequences instead of concatenation
    let lexs: Space<String> = {
        let base: Space<&'static str> = Space::of(lexemes::LEXEMES.to_vec());
        base.seq_range(1, tier.pick(3, 4)).map(|v| lexemes::join(&v))
    };
    drop(lex);
    // every printable ASCII character (and tab, CR, LF), not only one representative per lexer branch:
    // a special case for one character (a shebang, an escape, a sigil) is a new branch
    let ascii: Vec<String> = (0x20u8..0x7f).map(|b| (b as char).to_string()).chain(["\n", "\t", "\r"].iter().map(|s| s.to_string())).collect();
    let ascii_refs: Vec<&'static str> = ascii.iter().map(|s| &*Box::leak(s.clone().into_boxed_str())).collect();
    let ascii_leaked: &'static [&'static str] = Box::leak(ascii_refs.into_boxed_slice());
    let ascii3 = strings(ascii_leaked, 0, 3);
    let punct: Vec<&'static str> = ascii_leaked.iter().copied().filter(|s| !s.chars().all(|c| c.is_ascii_alphanumeric())).collect();
    let punct_leaked: &'static [&'static str] = Box::leak(punct.into_boxed_slice());
    let punct4 = strings(punct_leaked, 4, tier.pick(4, 5));
    let corpus: Vec<String> = corpus::VALID.iter().map(|s| s.to_string()).collect();
    let edits1 = edit_space(corpus.clone());
    let short: Vec<String> = corpus.iter().filter(|p| lexemes::split(p).len() <= 12).take(tier.pick(3, 12)).cloned().collect();
    let edits2 = double_edit_space(short);
    let depth = Space::of(depth_family());
    Box::new(C01 {
        thorough: tier == Tier::Thorough,
        // first, so that the worker that aborts on it has nothing else to lose and resumes behind it
        fams: vec![
            ("recorded-finding-probe".into(), Space::of(vec![deep_nesting_probe()])),
            ("chars".into(), chars),
            ("all-ascii <=3".into(), ascii3),
            ("ascii-punctuation 4".into(), punct4),
            ("lexemes".into(), lexs),
            ("edit1".into(), edits1),
            ("edit2".into(), edits2),
            ("depth".into(), depth),
            ("unicode-classes".into(), Space::of(lexemes::unicode_texts())),
            ("long-multibyte-tokens".into(), Space::of(lexemes::long_multibyte_texts())),
        ],
    })
}

impl C01 {
    fn through_debug_binary(&self, idx: u64, text: &str, ctx: &mut Ctx) {
        use std::io::Read;
        use std::process::{Command, Stdio};
        let dir = std::path::PathBuf::from(crate::engine::orch::verif_dir()).join("target/tmp").join(format!("c01-{}", std::process::id()));
        std::fs::create_dir_all(&dir).ok();
        let path = dir.join(format!("d{}.rock", idx));
        if std::fs::write(&path, text).is_err() {
            panic!("cannot write {}", path.display());
        }
        let bin = super::c20::bin_path();
        // `lint` = parse + the lint passes, nothing printed for these texts (`parse` pretty-prints the tree,
        // which is quadratic in the nesting depth)
        let mut child = match Command::new(&bin).arg("lint").arg(&path).env("NO_COLOR", "1").stdin(Stdio::null()).stdout(Stdio::null()).stderr(Stdio::piped()).spawn() {
            Ok(c) => c,
            Err(e) => panic!("cannot run the rrss binary {}: {}", bin.display(), e),
        };
        let mut err = child.stderr.take().unwrap();
        let reader = std::thread::spawn(move || {
            let mut b = Vec::new();
            let _ = err.read_to_end(&mut b);
            b
        });
        let start = std::time::Instant::now();
        let status = loop {
            match child.try_wait() {
                Ok(Some(s)) => break Some(s),
                Ok(None) => {
                    if start.elapsed().as_secs() > 120 {
                        let _ = child.kill();
                        let _ = child.wait();
                        break None;
                    }
                    std::thread::sleep(std::time::Duration::from_millis(5));
                }
                Err(_) => break None,
            }
        };
        let stderr = reader.join().unwrap_or_default();
        let _ = std::fs::remove_file(&path);
        ctx.count("cov.texts_through_the_debug_binary");
        match status {
            None => ctx.violation("hang", format!("`rrss lint FILE` (debug binary) did not finish within 120 s on a text of {} bytes starting {:?}", text.len(), crate::engine::orch::truncate(text, 60))),
            Some(s) if s.code().is_none() => {
                let tail = String::from_utf8_lossy(&stderr);
                ctx.violation(
                    "abort",
                    format!("`rrss lint FILE` (debug binary, opt-level 0) was killed by a signal on a text of {} bytes starting {:?}; stderr tail: {}", text.len(), crate::engine::orch::truncate(text, 60), crate::engine::orch::truncate(tail.trim_end(), 200)),
                );
            }
            Some(s) => {
                if s.code() == Some(101) {
                    let tail = String::from_utf8_lossy(&stderr);
                    ctx.violation("panic", format!("`rrss lint FILE` (debug binary) panicked on a text of {} bytes starting {:?}: {}", text.len(), crate::engine::orch::truncate(text, 60), crate::engine::orch::truncate(tail.trim_end(), 200)));
                }
            }
        }
    }
}

impl Check for C01 {
    fn families(&self) -> Vec<(String, u64)> {
        self.fams.iter().map(|(n, s)| (n.clone(), s.len())).collect()
    }
    fn describe(&self, fam: usize, idx: u64) -> Value {
        let t = self.fams[fam].1.get(idx);
        if t.len() > 400 {
            json!({"text": t, "note": "long text (depth family)"})
        } else {
            json!({ "text": t })
        }
    }
    fn run_case(&self, fam: usize, idx: u64, ctx: &mut Ctx) {
        let text = self.fams[fam].1.get(idx);
        ctx.case_text(&text);
        // the depth family also goes through the unoptimised rrss binary (`rrss parse FILE`, a true debug
        // build: no tail calls, the largest stack frames) — once, from the checked configuration
        if self.fams[fam].0 == "depth" && cfg!(debug_assertions) && (self.thorough || !heavy_for_the_debug_binary(&text)) {
            self.through_debug_binary(idx, &text, ctx);
        }
        // token census (also exercises the lexer on its own)
        let mut ntok = 0usize;
        let mut has_err = false;
        for t in Lexer::new(&text) {
            ntok += 1;
            if t.id.is_error() {
                has_err = true;
            }
            if ntok > text.len() + 2 {
                ctx.violation("lexer-no-progress", format!("lexer produced more tokens ({}) than the text has bytes", ntok));
                break;
            }
        }
        if ntok >= 2 || has_err {
            ctx.nontrivial();
        }
        match subject::parse_render(&text) {
            Ok(tree) => {
                ctx.count("parse_ok");
                ctx.observe_str("ok");
                ctx.observe_str(&tree);
            }
            Err(msg) => {
                ctx.count("parse_err");
                if !msg.starts_with("Parse error (line ") {
                    ctx.violation("bad-message", format!("rendered parse error has no location prefix: {:?}", msg));
                }
                // which error code, for the coverage census
                let code = msg.splitn(2, "): ").nth(1).unwrap_or("").split(|c: char| c == '`' || c == ',').next().unwrap_or("").trim().to_string();
                ctx.cover("error_kinds", &code);
                ctx.observe_str("err");
                ctx.observe_str(&msg);
            }
        }
    }
    fn static_coverage(&self) -> Value {
        json!({
            "char_alphabet": CHAR_ALPHABET,
            "lexeme_alphabet_size": lexemes::LEXEMES.len(),
            "corpus_programs": corpus::VALID.len(),
        })
    }
}

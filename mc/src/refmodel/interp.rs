//! Reference interpreter over RAst. Boring on purpose: a scope stack of plain maps, values cloned
//! on every copy, explicit budgets. It follows the property statements; where they leave the
//! behaviour open it stops with `Stop::Unspec(reason)` and the case is not judged.
use super::rast::*;
use super::value::*;
use std::collections::HashMap;
use std::rc::Rc;

#[derive(Clone, Debug)]
pub struct FuncDef {
    pub params: Vec<Name>,
    pub body: Vec<Stmt>,
}

#[derive(Clone, Debug)]
pub enum Entry {
    Var(V),
    Func(Rc<FuncDef>),
}

#[derive(Clone, Debug, PartialEq)]
pub enum Referent {
    None,
    Some(Name),
    Unspecified,
}

#[derive(Clone, Debug)]
pub enum Out {
    /// a line whose text is fully determined
    Text(String),
    /// a number printed directly by `say` (spelling of non-finite numbers and -0 is tolerant)
    Num(f64),
}

#[derive(Clone, Debug, PartialEq)]
pub enum End {
    Ok,
    Error(&'static str),
    Unspec(&'static str),
    Budget(&'static str),
}

#[derive(Clone, Debug)]
pub struct Outcome {
    pub out: Vec<Out>,
    pub end: End,
}

enum Flow {
    Normal,
    Break,
    Continue,
    Return(V),
}

#[derive(Clone, Copy)]
pub struct Limits {
    pub steps: u64,
    pub depth: usize,
}

impl Default for Limits {
    fn default() -> Self {
        Limits { steps: 20_000, depth: 24 }
    }
}

pub struct Interp<'i> {
    scopes: Vec<HashMap<String, Entry>>,
    /// index of the first scope of each live activation (lexical discipline)
    frames: Vec<usize>,
    pub lexical: bool,
    last: Referent,
    input: &'i [u8],
    pos: usize,
    pub out: Vec<Out>,
    /// number of output items already produced at each executed `listen` (for the I/O order oracle)
    pub listen_at: Vec<usize>,
    steps: u64,
    loop_depth: usize,
    limits: Limits,
}

fn prim_has_effect(p: &Prim) -> bool {
    match p {
        Prim::Lit(_) | Prim::Ident(_) => false,
        Prim::Sub(a, i) => prim_has_effect(a) || prim_has_effect(i),
        Prim::Call(..) | Prim::Pop(_) => true,
    }
}

pub fn expr_has_effect(e: &Expr) -> bool {
    match e {
        Expr::Prim(p) => prim_has_effect(p),
        Expr::Bin(_, l, rs) => expr_has_effect(l) || rs.iter().any(expr_has_effect),
        Expr::Un(_, x) => expr_has_effect(x),
    }
}

fn prim_has_call(p: &Prim) -> bool {
    match p {
        Prim::Lit(_) | Prim::Ident(_) => false,
        Prim::Sub(a, i) => prim_has_call(a) || prim_has_call(i),
        Prim::Call(..) => true,
        Prim::Pop(x) => prim_has_call(x),
    }
}

fn expr_has_call(e: &Expr) -> bool {
    match e {
        Expr::Prim(p) => prim_has_call(p),
        Expr::Bin(_, l, rs) => expr_has_call(l) || rs.iter().any(expr_has_call),
        Expr::Un(_, x) => expr_has_call(x),
    }
}

fn prim_has_pronoun(p: &Prim) -> bool {
    match p {
        Prim::Lit(_) => false,
        Prim::Ident(Ident::Pronoun) => true,
        Prim::Ident(_) => false,
        Prim::Sub(a, i) => prim_has_pronoun(a) || prim_has_pronoun(i),
        Prim::Call(_, args) => args.iter().any(expr_has_pronoun),
        Prim::Pop(x) => prim_has_pronoun(x),
    }
}

fn expr_has_pronoun(e: &Expr) -> bool {
    match e {
        Expr::Prim(p) => prim_has_pronoun(p),
        Expr::Bin(_, l, rs) => expr_has_pronoun(l) || rs.iter().any(expr_has_pronoun),
        Expr::Un(_, x) => expr_has_pronoun(x),
    }
}

fn prim_names(p: &Prim, out: &mut Vec<String>) {
    match p {
        Prim::Lit(_) => {}
        Prim::Ident(Ident::Name(n)) => out.push(n.key()),
        Prim::Ident(Ident::Pronoun) => {}
        Prim::Sub(a, i) => {
            prim_names(a, out);
            prim_names(i, out);
        }
        Prim::Call(_, args) => args.iter().for_each(|a| expr_names(a, out)),
        Prim::Pop(x) => prim_names(x, out),
    }
}

fn expr_names(e: &Expr, out: &mut Vec<String>) {
    match e {
        Expr::Prim(p) => prim_names(p, out),
        Expr::Bin(_, l, rs) => {
            expr_names(l, out);
            rs.iter().for_each(|r| expr_names(r, out));
        }
        Expr::Un(_, x) => expr_names(x, out),
    }
}

/// a write target: root identifier + subscripts (innermost first)
struct Target<'p> {
    root: &'p Ident,
    subs: Vec<&'p Prim>,
}

fn target_of_prim(p: &Prim) -> Option<Target<'_>> {
    match p {
        Prim::Ident(i) => Some(Target { root: i, subs: Vec::new() }),
        Prim::Sub(a, i) => {
            let mut t = target_of_prim(a)?;
            t.subs.push(i);
            Some(t)
        }
        _ => None,
    }
}

/// why a primary expression cannot be written through
fn untargetable(p: &Prim) -> Stop {
    fn root(p: &Prim) -> &Prim {
        match p {
            Prim::Sub(a, _) => root(a),
            x => x,
        }
    }
    if prim_has_call(p) {
        Stop::Unspec("U-order: writing through a call result (error vs. output of the call)")
    } else if let Prim::Pop(_) = root(p) {
        Stop::Unspec("U-stray: writing through the result of a roll")
    } else {
        Stop::Error("value not writable")
    }
}

fn target_of_lhs(l: &Lhs) -> Option<Target<'_>> {
    match l {
        Lhs::Ident(i) => Some(Target { root: i, subs: Vec::new() }),
        Lhs::Sub(a, i) => {
            let mut t = target_of_prim(a)?;
            t.subs.push(i);
            Some(t)
        }
    }
}

impl<'i> Interp<'i> {
    pub fn new(input: &'i [u8], lexical: bool, limits: Limits) -> Self {
        Interp {
            scopes: vec![HashMap::new()],
            frames: vec![0],
            lexical,
            last: Referent::None,
            input,
            pos: 0,
            out: Vec::new(),
            listen_at: Vec::new(),
            steps: 0,
            loop_depth: 0,
            limits,
        }
    }

    fn tick(&mut self) -> R<()> {
        self.steps += 1;
        if self.steps > self.limits.steps {
            Err(Stop::Budget("step budget"))
        } else {
            Ok(())
        }
    }

    /// scopes visible from the current activation, innermost first
    fn visible(&self) -> Vec<usize> {
        let top = self.scopes.len();
        if self.lexical {
            let base = *self.frames.last().unwrap();
            let mut v: Vec<usize> = (base..top).rev().collect();
            if base > 0 {
                v.push(0);
            }
            v
        } else {
            (0..top).rev().collect()
        }
    }

    fn find(&self, key: &str) -> Option<usize> {
        self.visible().into_iter().find(|i| self.scopes[*i].contains_key(key))
    }

    fn read_name(&mut self, n: &Name) -> R<V> {
        self.last = Referent::Some(n.clone());
        self.read_key(&n.key())
    }

    fn read_key(&self, key: &str) -> R<V> {
        match self.find(key) {
            Some(i) => match &self.scopes[i][key] {
                Entry::Var(v) => Ok(v.clone()),
                Entry::Func(_) => Err(Stop::Unspec("U-stray: function name read as a variable")),
            },
            None => Err(Stop::Error("unknown name")),
        }
    }

    fn referent(&self) -> R<Name> {
        match &self.last {
            Referent::None => Err(Stop::Error("pronoun without referent")),
            Referent::Unspecified => Err(Stop::Unspec("U-pronoun: referent not determined")),
            Referent::Some(n) => Ok(n.clone()),
        }
    }

    /// mutable access to the variable behind an identifier, creating it (mysterious) in the
    /// innermost scope when no visible variable has that name
    fn root_slot(&mut self, id: &Ident) -> R<&mut V> {
        let (key, create) = match id {
            Ident::Name(n) => {
                self.last = Referent::Some(n.clone());
                (n.key(), true)
            }
            Ident::Pronoun => (self.referent()?.key(), false),
        };
        match self.find(&key) {
            Some(i) => match self.scopes[i].get_mut(&key).unwrap() {
                Entry::Var(v) => Ok(v),
                Entry::Func(_) => Err(Stop::Unspec("U-stray: function name used as a variable")),
            },
            None => {
                if !create {
                    return Err(Stop::Error("unknown name"));
                }
                let top = self.scopes.last_mut().unwrap();
                top.insert(key.clone(), Entry::Var(V::Myst));
                match top.get_mut(&key).unwrap() {
                    Entry::Var(v) => Ok(v),
                    _ => unreachable!(),
                }
            }
        }
    }

    fn with_target<T>(&mut self, t: Target<'_>, f: impl FnOnce(&mut V) -> R<T>) -> R<T> {
        if t.subs.iter().any(|s| prim_has_effect(s)) {
            return Err(Stop::Unspec("U-order: side effect inside the subscript of a written element"));
        }
        if t.subs.len() >= 2 && t.subs.iter().any(|s| prim_has_pronoun(s)) {
            return Err(Stop::Unspec("U-pronoun: pronoun inside one of several subscripts of a written element"));
        }
        let mut sub_names = Vec::new();
        t.subs.iter().for_each(|s| prim_names(s, &mut sub_names));
        if matches!(t.root, Ident::Pronoun) && !sub_names.is_empty() {
            return Err(Stop::Unspec("U-pronoun: written pronoun whose subscripts name variables"));
        }
        let mut keys = Vec::new();
        for s in &t.subs {
            keys.push(self.eval_prim(s)?);
        }
        let root_key = match t.root {
            Ident::Name(n) => Some(n.key()),
            Ident::Pronoun => None,
        };
        let ambiguous = sub_names.iter().any(|k| Some(k) != root_key.as_ref());
        let r = {
            let mut slot = self.root_slot(t.root)?;
            for k in &keys {
                slot = index_slot(slot, k)?;
            }
            f(slot)
        };
        if ambiguous {
            // whether the subscript or the array was "named" last is evaluation-order dependent
            self.last = Referent::Unspecified;
        }
        r
    }

    fn write_lhs(&mut self, l: &Lhs, v: V) -> R<()> {
        match target_of_lhs(l) {
            Some(t) => self.with_target(t, move |slot| {
                *slot = v;
                Ok(())
            }),
            None => Err(Stop::Error("value not writable")),
        }
    }

    fn read_lhs(&mut self, l: &Lhs) -> R<V> {
        match l {
            Lhs::Ident(i) => self.eval_ident(i),
            Lhs::Sub(a, i) => {
                let av = self.eval_prim(a)?;
                let iv = self.eval_prim(i)?;
                index_read(&av, &iv)
            }
        }
    }

    fn eval_ident(&mut self, i: &Ident) -> R<V> {
        match i {
            Ident::Name(n) => self.read_name(n),
            Ident::Pronoun => {
                let n = self.referent()?;
                self.read_key(&n.key())
            }
        }
    }

    pub fn eval_prim(&mut self, p: &Prim) -> R<V> {
        self.tick()?;
        match p {
            Prim::Lit(l) => Ok(match l {
                Lit::Mysterious => V::Myst,
                Lit::Null => V::Null,
                Lit::Bool(b) => V::Bool(*b),
                Lit::Num(n) => V::Num(*n),
                Lit::Str(s) => V::Str(s.clone()),
            }),
            Prim::Ident(i) => self.eval_ident(i),
            Prim::Sub(a, i) => {
                let av = self.eval_prim(a)?;
                let iv = self.eval_prim(i)?;
                index_read(&av, &iv)
            }
            Prim::Call(n, args) => self.call(n, args),
            Prim::Pop(t) => match target_of_prim(t) {
                Some(t) => self.with_target(t, |slot| pop(slot)),
                None => Err(untargetable(t)),
            },
        }
    }

    pub fn eval(&mut self, e: &Expr) -> R<V> {
        self.tick()?;
        match e {
            Expr::Prim(p) => self.eval_prim(p),
            Expr::Un(UnOp::Neg, x) => {
                let v = self.eval(x)?;
                negate(&v)
            }
            Expr::Un(UnOp::Not, x) => Ok(V::Bool(!self.eval(x)?.truthy())),
            Expr::Bin(op, l, rs) => {
                let mut acc = self.eval(l)?;
                for r in rs {
                    acc = self.fold_step(*op, acc, r)?;
                }
                Ok(acc)
            }
        }
    }

    fn fold_step(&mut self, op: BinOp, acc: V, r: &Expr) -> R<V> {
        use std::cmp::Ordering::*;
        Ok(match op {
            BinOp::And => V::Bool(if acc.truthy() { self.eval(r)?.truthy() } else { false }),
            BinOp::Or => V::Bool(if acc.truthy() { true } else { self.eval(r)?.truthy() }),
            BinOp::Nor => V::Bool(if acc.truthy() { false } else { !self.eval(r)?.truthy() }),
            _ => {
                let b = self.eval(r)?;
                match op {
                    BinOp::Plus => plus(&acc, &b)?,
                    BinOp::Minus => minus(&acc, &b)?,
                    BinOp::Times => times(&acc, &b)?,
                    BinOp::Over => over(&acc, &b)?,
                    BinOp::Eq => V::Bool(equals(&acc, &b)?),
                    BinOp::Ne => V::Bool(!equals(&acc, &b)?),
                    BinOp::Gt => V::Bool(compare(&acc, &b)? == Some(Greater)),
                    BinOp::Ge => V::Bool(matches!(compare(&acc, &b)?, Some(Greater) | Some(Equal))),
                    BinOp::Lt => V::Bool(compare(&acc, &b)? == Some(Less)),
                    BinOp::Le => V::Bool(matches!(compare(&acc, &b)?, Some(Less) | Some(Equal))),
                    BinOp::And | BinOp::Or | BinOp::Nor => unreachable!(),
                }
            }
        })
    }

    fn call(&mut self, n: &Name, args: &[Expr]) -> R<V> {
        let key = n.key();
        let f = match self.find(&key) {
            Some(i) => match &self.scopes[i][&key] {
                Entry::Func(f) => f.clone(),
                Entry::Var(_) => return Err(Stop::Error("call of a non-function")),
            },
            None => return Err(Stop::Error("unknown function")),
        };
        if f.params.len() != args.len() {
            if args.iter().any(expr_has_call) {
                return Err(Stop::Unspec("U-order: arity error vs. output produced by argument evaluation"));
            }
            return Err(Stop::Error("wrong number of arguments"));
        }
        if self.frames.len() > self.limits.depth {
            return Err(Stop::Budget("call depth"));
        }
        let mut vals = Vec::new();
        for a in args {
            vals.push(self.eval(a)?);
        }
        let mut scope = HashMap::new();
        for (p, v) in f.params.iter().zip(vals) {
            if scope.insert(p.key(), Entry::Var(v)).is_some() {
                return Err(Stop::Unspec("U-stray: duplicate parameter names"));
            }
        }
        self.frames.push(self.scopes.len());
        self.scopes.push(scope);
        // a pronoun at the very start of the body still denotes the variable the caller named last
        // (nothing has ended); whether that variable is visible from the callee is settled by
        // running under both scoping disciplines (U-scope when they disagree)
        let saved_loops = self.loop_depth;
        self.loop_depth = 0;
        let flow = self.block(&f.body)?;
        self.loop_depth = saved_loops;
        self.scopes.pop();
        self.frames.pop();
        self.last = Referent::None;
        Ok(match flow {
            Flow::Return(v) => v,
            Flow::Normal => V::Myst,
            Flow::Break | Flow::Continue => unreachable!("stray break is stopped where it executes"),
        })
    }

    fn block(&mut self, stmts: &[Stmt]) -> R<Flow> {
        for s in stmts {
            match self.stmt(s)? {
                Flow::Normal => {}
                f => return Ok(f),
            }
        }
        Ok(Flow::Normal)
    }

    fn poetic_value(&self, elems: &[PElem]) -> R<f64> {
        match super::poetic::numeral(elems) {
            Some(num) => {
                if num.contains('.') && num.trim_end_matches('0').trim_end_matches('.').contains('.') {
                    return Err(Stop::Unspec("poetic literal with a fraction (rounding judged by C11)"));
                }
                let v: f64 = super::poetic::value(elems).ok_or(Stop::Unspec("poetic literal numeral"))?;
                if v >= 9007199254740992.0 {
                    return Err(Stop::Unspec("poetic literal >= 2^53 (rounding judged by C11)"));
                }
                Ok(v)
            }
            None => Err(Stop::Unspec("degenerate poetic literal (judged by C09/C11)")),
        }
    }

    fn read_line(&mut self) -> R<String> {
        self.listen_at.push(self.out.len());
        let rest = &self.input[self.pos..];
        let (line, used) = match rest.iter().position(|b| *b == b'\n') {
            Some(p) => (&rest[..p], p + 1),
            None => (rest, rest.len()),
        };
        self.pos += used;
        if line.contains(&b'\r') {
            return Err(Stop::Unspec("U-crlf"));
        }
        match std::str::from_utf8(line) {
            Ok(s) => Ok(s.to_string()),
            Err(_) => Err(Stop::Error("input is not UTF-8")),
        }
    }

    fn say(&mut self, v: &V) -> R<()> {
        let o = match v {
            V::Myst => Out::Text("mysterious".into()),
            V::Null => Out::Text("null".into()),
            V::Bool(b) => Out::Text(if *b { "true" } else { "false" }.into()),
            V::Num(n) => Out::Num(*n),
            V::Str(s) => Out::Text(s.clone()),
            V::Arr(a) => Out::Num(a.seq.len() as f64),
        };
        self.out.push(o);
        if self.out.len() > 5000 {
            return Err(Stop::Budget("output lines"));
        }
        Ok(())
    }

    fn stmt(&mut self, s: &Stmt) -> R<Flow> {
        self.tick()?;
        match s {
            Stmt::Assign { dest, op: None, value } => {
                if value.len() != 1 {
                    return Err(Stop::Unspec("U-stray: expression list without a compound operator"));
                }
                let v = self.eval(&value[0])?;
                self.write_lhs(dest, v)?;
            }
            Stmt::Assign { dest, op: Some(op), value } => {
                let mut acc = self.read_lhs(dest)?;
                for r in value {
                    acc = self.fold_step(*op, acc, r)?;
                }
                self.write_lhs(dest, acc)?;
            }
            Stmt::PoeticNum { dest, rhs } => {
                let v = match rhs {
                    PoeticRhs::Expr(e) => self.eval(e)?,
                    PoeticRhs::Lit(elems) => V::Num(self.poetic_value(elems)?),
                };
                self.write_lhs(dest, v)?;
            }
            Stmt::PoeticStr { dest, text } => self.write_lhs(dest, V::Str(text.clone()))?,
            Stmt::If { cond, then, els } => {
                let c = self.eval(cond)?.truthy();
                self.scopes.push(HashMap::new());
                let flow = if c {
                    self.block(then)?
                } else if let Some(e) = els {
                    self.block(e)?
                } else {
                    Flow::Normal
                };
                self.scopes.pop();
                self.last = if !c && els.is_none() && self.last != Referent::None { Referent::Unspecified } else { Referent::None };
                return Ok(flow);
            }
            Stmt::While { cond, body } | Stmt::Until { cond, body } => {
                let invert = matches!(s, Stmt::Until { .. });
                loop {
                    self.tick()?;
                    let c = self.eval(cond)?.truthy();
                    if c == invert {
                        break;
                    }
                    self.scopes.push(HashMap::new());
                    self.loop_depth += 1;
                    let flow = self.block(body)?;
                    self.loop_depth -= 1;
                    self.scopes.pop();
                    self.last = Referent::None;
                    match flow {
                        Flow::Normal | Flow::Continue => {}
                        Flow::Break => break,
                        Flow::Return(v) => return Ok(Flow::Return(v)),
                    }
                }
            }
            Stmt::Inc { dest, n } | Stmt::Dec { dest, n } => {
                let k = if matches!(s, Stmt::Inc { .. }) { *n } else { -*n };
                self.with_target(Target { root: dest, subs: Vec::new() }, |slot| inc(slot, k))?;
            }
            Stmt::Input { dest } => {
                let line = self.read_line()?;
                if let Some(d) = dest {
                    self.write_lhs(d, V::Str(line))?;
                }
            }
            Stmt::Output(e) => {
                let v = self.eval(e)?;
                self.say(&v)?;
            }
            Stmt::Mutation { op, operand, dest, param } => {
                if let Some(p) = param {
                    if expr_has_effect(p) && prim_has_effect(operand) {
                        return Err(Stop::Unspec("U-order: side effects in both operand and parameter of a mutation"));
                    }
                }
                let pv = match param {
                    Some(p) => Some(self.eval(p)?),
                    None => None,
                };
                let apply = |v: &V, pv: Option<&V>| match op {
                    MutOp::Cut => split(v, pv),
                    MutOp::Join => join(v, pv),
                    MutOp::Cast => cast(v, pv),
                };
                match dest {
                    Some(d) => {
                        let v = self.eval_prim(operand)?;
                        let r = apply(&v, pv.as_ref())?;
                        self.write_lhs(d, r)?;
                    }
                    None => match target_of_prim(operand) {
                        Some(t) => self.with_target(t, |slot| {
                            let r = apply(slot, pv.as_ref())?;
                            *slot = r;
                            Ok(())
                        })?,
                        None => return Err(untargetable(operand)),
                    },
                }
            }
            Stmt::Round { dir, operand } => match operand {
                Expr::Prim(p) => match target_of_prim(p) {
                    Some(t) => self.with_target(t, |slot| {
                        let r = round(slot, *dir)?;
                        *slot = r;
                        Ok(())
                    })?,
                    None => return Err(untargetable(p)),
                },
                e => {
                    if expr_has_call(e) {
                        return Err(Stop::Unspec("U-order: rounding an expression containing a call"));
                    }
                    return Err(Stop::Error("value not writable"));
                }
            },
            Stmt::Continue | Stmt::Break => {
                if self.loop_depth == 0 {
                    return Err(Stop::Unspec("U-stray: break/continue outside a loop"));
                }
                return Ok(if matches!(s, Stmt::Break) { Flow::Break } else { Flow::Continue });
            }
            Stmt::Push { array, value } => {
                let vals = match value {
                    None => Vec::new(),
                    Some(PushRhs::List(es)) => {
                        let mut v = Vec::new();
                        for e in es {
                            v.push(self.eval(e)?);
                        }
                        v
                    }
                    Some(PushRhs::Lit(elems)) => vec![V::Num(self.poetic_value(elems)?)],
                };
                match target_of_prim(array) {
                    Some(t) => self.with_target(t, move |slot| push(slot, vals))?,
                    None => return Err(untargetable(array)),
                }
            }
            Stmt::Pop { array, dest } => {
                let v = match target_of_prim(array) {
                    Some(t) => self.with_target(t, |slot| pop(slot))?,
                    None => return Err(untargetable(array)),
                };
                if let Some(d) = dest {
                    self.write_lhs(d, v)?;
                }
            }
            Stmt::Return(e) => {
                if self.frames.len() == 1 {
                    return Err(Stop::Unspec("U-stray: return outside a function"));
                }
                let v = self.eval(e)?;
                return Ok(Flow::Return(v));
            }
            Stmt::Function { name, params, body } => {
                let key = name.key();
                let top = self.scopes.last_mut().unwrap();
                if top.contains_key(&key) {
                    return Err(Stop::Unspec("U-stray: function name clashes with an existing name"));
                }
                top.insert(key, Entry::Func(Rc::new(FuncDef { params: params.clone(), body: body.clone() })));
            }
            Stmt::Call(n, args) => {
                self.call(n, args)?;
            }
        }
        Ok(Flow::Normal)
    }

    pub fn run(&mut self, prog: &[Stmt]) -> Outcome {
        let end = match self.block(prog) {
            Ok(Flow::Normal) => End::Ok,
            Ok(_) => End::Unspec("U-stray: control flow escaping the program"),
            Err(Stop::Error(e)) => End::Error(e),
            Err(Stop::Unspec(r)) => End::Unspec(r),
            Err(Stop::Budget(r)) => End::Budget(r),
        };
        Outcome { out: self.out.clone(), end }
    }

    pub fn set_global(&mut self, n: &Name, v: V) {
        self.scopes[0].insert(n.key(), Entry::Var(v));
    }

    /// value of a global variable after the run (None if absent or a function)
    pub fn global(&self, n: &Name) -> Option<V> {
        match self.scopes[0].get(&n.key()) {
            Some(Entry::Var(v)) => Some(v.clone()),
            _ => None,
        }
    }
}

/// Run under both scoping disciplines; programs on which they disagree are U-scope.
pub fn run_reference(prog: &[Stmt], input: &[u8], limits: Limits) -> Outcome {
    let dynamic = Interp::new(input, false, limits).run(prog);
    if matches!(dynamic.end, End::Unspec(_) | End::Budget(_)) {
        return dynamic;
    }
    let lexical = Interp::new(input, true, limits).run(prog);
    if !same_outcome(&dynamic, &lexical) {
        return Outcome { out: Vec::new(), end: End::Unspec("U-scope: lexical and dynamic scoping disagree") };
    }
    dynamic
}

fn same_outcome(a: &Outcome, b: &Outcome) -> bool {
    let end_same = match (&a.end, &b.end) {
        (End::Ok, End::Ok) => true,
        (End::Error(_), End::Error(_)) => true,
        _ => false,
    };
    end_same
        && a.out.len() == b.out.len()
        && a.out.iter().zip(&b.out).all(|(x, y)| match (x, y) {
            (Out::Text(s), Out::Text(t)) => s == t,
            (Out::Num(m), Out::Num(n)) => m.to_bits() == n.to_bits() || (m.is_nan() && n.is_nan()),
            _ => false,
        })
}

/// Compare the subject's stdout with the reference output. Err(description) on mismatch.
pub fn match_output(expected: &[Out], actual: &[u8]) -> Result<(), String> {
    let mut rest: &[u8] = actual;
    for (k, o) in expected.iter().enumerate() {
        match o {
            Out::Text(s) => {
                let want = s.as_bytes();
                if rest.len() > want.len() && &rest[..want.len()] == want && rest[want.len()] == b'\n' {
                    rest = &rest[want.len() + 1..];
                } else {
                    return Err(format!("output line {}: expected {:?}, got {:?}", k + 1, s, String::from_utf8_lossy(&rest[..rest.len().min(want.len() + 40)])));
                }
            }
            Out::Num(n) => {
                let p = match rest.iter().position(|b| *b == b'\n') {
                    Some(p) => p,
                    None => return Err(format!("output line {}: expected the number {:?}, output ends with {:?}", k + 1, n, String::from_utf8_lossy(rest))),
                };
                let text = String::from_utf8_lossy(&rest[..p]).into_owned();
                rest = &rest[p + 1..];
                if let Err(e) = number_text_ok(*n, &text) {
                    return Err(format!("output line {}: {}", k + 1, e));
                }
            }
        }
    }
    if !rest.is_empty() {
        return Err(format!("unexpected extra output {:?}", String::from_utf8_lossy(&rest[..rest.len().min(80)])));
    }
    Ok(())
}

/// canonical rendering of a number: finite -> plain decimal re-parsing to the same value, integers
/// without fraction or exponent; non-finite / -0 spellings are tolerant (U-numtext)
pub fn number_text_ok(n: f64, text: &str) -> Result<(), String> {
    let tl = text.to_ascii_lowercase();
    if n.is_nan() {
        return if tl == "nan" || tl == "-nan" || tl == "+nan" { Ok(()) } else { Err(format!("expected NaN, printed {:?}", text)) };
    }
    if n.is_infinite() {
        let pos = ["inf", "+inf", "infinity", "+infinity"];
        let neg = ["-inf", "-infinity"];
        let ok = if n > 0.0 { pos.contains(&tl.as_str()) } else { neg.contains(&tl.as_str()) };
        return if ok { Ok(()) } else { Err(format!("expected {:?}, printed {:?}", n, text)) };
    }
    if !text.bytes().all(|b| b.is_ascii_digit() || b == b'.' || b == b'-') || text.is_empty() {
        return Err(format!("number {:?} printed as {:?}: not a plain decimal", n, text));
    }
    let parsed: f64 = match text.parse() {
        Ok(p) => p,
        Err(_) => return Err(format!("number {:?} printed as {:?}: does not parse", n, text)),
    };
    if parsed != n {
        return Err(format!("number {:?} printed as {:?} which re-parses to {:?}", n, text, parsed));
    }
    if n != 0.0 && parsed.to_bits() != n.to_bits() {
        return Err(format!("number {:?} printed as {:?}", n, text));
    }
    if n.trunc() == n && text.contains('.') {
        return Err(format!("integer {:?} printed with a fraction: {:?}", n, text));
    }
    Ok(())
}

//! C05 — functions, scopes and pronouns: calls are by value and locals do not leak.
use super::judge::{judge, JudgeOpts, Judged};
use crate::engine::space::Space;
use crate::engine::*;
use serde_json::{json, Value};

pub const DEF: PropDef = PropDef {
    id: "C05",
    level: "exploration",
    rule: "complete enumeration of programs = fixed prelude (global x, helper function yod) + function `zed takes u` whose body is every sequence of 1..2 (thorough 1..3) statements of a 22-statement body alphabet (locals, parameter mutation, global update, returns at every depth, recursion, nested call, pronoun read/write, array parameter mutation) + every sequence of 1..2 (with one-statement bodies: 1..3) statements of a 44-statement caller alphabet (calls in every position, wrong arity, compound assignments to unknown / out-of-scope names, calling a variable / unknown name, leaked locals, block locals, shadowing, side-effecting arguments, arrays by value, pronouns after blocks and calls); plus the pronoun-after-naming family: 38 statements that name several variables (subscript reads, operators, short-circuit, lists, every statement kind with a destination, calls, conditions of if / while / until) x 7 pronoun uses, at top level and inside a function; plus 14 shapes that create a local in one scope and open a later scope of every kind (block, else, loop iteration, call, nested function) x 5 names of the three kinds; outcome and output compared with the reference interpreter under both scoping disciplines; non-trivial = judged (not skipped as unspecified); distinct = distinct program text",
    assumptions: &[
        "programs on which lexical and dynamic scoping differ (callee touching a caller's non-global local) are skipped as U-scope; pronoun uses whose referent depends on unspecified evaluation order are skipped as U-pronoun",
        "reference interpreter written from the property text",
    ],
    build,
    exhaustive: true,
};

pub const BODY: &[&str] = &[
    "put u into v\n",
    "put 5 into x\n",
    "put 6 into v\n",
    "build u up\n",
    "say u\n",
    "say x\n",
    "say v\n",
    "say it\n",
    "give back u\n",
    "give back v\n",
    "give back x plus u\n",
    "if u is 1\ngive back 9\n\n",
    "while u is less than 3\nbuild u up\nif u is 2\ngive back u\n\n\n",
    "if u is greater than 0\nput u minus 1 into z\ngive back zed taking z\n\n",
    "rock u with 1\n",
    "let u at 0 be 9\n",
    "say yod taking u\n",
    "put yod taking u into v\n",
    "put 1 into it\n",
    "give back it\n",
    "if u\nput 3 into v\n\n",
    "until u is greater than 1\nbuild u up\nput u into v\nsay it\n\n",
];

pub const MAIN: &[&str] = &[
    "say zed taking x\n",
    "say zed taking 1\n",
    "say zed taking 0\n",
    "zed taking x\n",
    "put zed taking x into y\n",
    "say x\n",
    "say v\n",
    "say u\n",
    "say it\n",
    "say y\n",
    "say zed taking 1, 2\n",
    "say x taking 1\n",
    "say qux taking 1\n",
    "rock q with 1, 2\nsay yod taking roll q\nsay q\n",
    "rock w with 1\nsay zed taking w\nsay w\n",
    "if true\nput 1 into v\n\nsay v\n",
    "put 7 into u\n",
    "say zed taking zed taking 1\n",
    "put 2 into it\n",
    "while x is less than 3\nbuild x up\nput x into v\n\nsay it\n",
    "two takes k, j\nsay k\nsay j\n\nrock q with 1, 2\ntwo taking roll q, roll q\n",
    "put 3 into k\nput 4 into j\nswap takes k, j\nsay k\nsay j\ngive back k minus j\n\nsay swap taking j, k\nsay swap taking k, swap taking j, k\nsay k\n",
    "put 3 into u\nsay zed taking u plus x\nsay u\n",
    "ping takes k\nif k is 0\ngive back 0\n\nput k minus 1 into j\ngive back pong taking j\n\npong takes k\ngive back 1 plus ping taking k\n\nsay ping taking 3\n",
    "say late taking 1\n",
    "if true\ninner takes k\ngive back k times 2\n\nsay inner taking 2\n\nsay inner taking 3\n",
    "mk takes k\nrock r with k, k\ngive back r\n\nput mk taking 5 into w\nrock w with 6\nsay w\nsay mk taking 1\nsay r\n",
    "Zed Yod takes the zed\ngive back the zed plus 1\n\nsay Zed Yod taking 4\nsay ZED YOD taking x\n",
    "outer takes k\ninner takes j\ngive back j times 2\n\ngive back inner taking k\n\nsay outer taking 4\nsay inner taking 1\n",
    // a parameter named like a function hides it inside the body only
    "hide takes yod\ngive back yod taking 1\n\nsay hide taking 5\n",
    "hide takes yod\ngive back yod plus 1\n\nsay hide taking 5\nsay yod taking 1\n",
    "own takes own\ngive back own\n\nsay own taking 3\nsay own taking 4\n",
    "hide takes zed\nsay zed\ngive back yod taking zed\n\nsay hide taking 5\nsay zed taking 1\n",
    // a return out of a loop (nested loops, inside an if) whose guards consume a queue: each guard runs once per pass
    "rock q with 1, 2, 3\nfirst takes k\nwhile roll q\ngive back 7\n\ngive back 8\n\nsay first taking 0\nsay q\n",
    "rock q with 1, 2, 3, 4\nrock p with 1, 2, 3\nfirst takes k\nwhile roll q\nuntil not roll p\nif k is 0\ngive back 7\n\n\n\ngive back 8\n\nsay first taking 0\nsay q\nsay p\n",
    "rock q with 0, 0, 5\nfirst takes k\nuntil roll q\nsay 1\n\nuntil roll q\ngive back 9\n\ngive back 8\n\nsay first taking 0\nsay q\n",
    // a compound assignment reads its target first: a name that is not visible is an error, not a creation
    "let zork be with 1\nsay zork\n",
    "say yod taking 1\nlet s be with 1\nsay s\n",
    "let u be times 2\nsay u\n",
    // every wrong arity, with parameters the body never reads or that exist outside
    "two takes k, j\nsay k\ngive back k\n\nsay two taking 1\n",
    "two takes k, x\ngive back k plus x\n\nsay two taking 5\nsay x\n",
    "two takes k, j\ngive back k\n\nsay two taking 1, 2, 3\n",
    "tri takes k, j, i\ngive back k\n\nsay tri taking 1, 2\nsay 7\n",
    "tri takes k, j, i\nput 9 into i\ngive back k\n\nput 1 into i\nsay tri taking 1, 2\nsay i\n",
];

pub const PRELUDE: &str = "put 1 into x\nyod takes k\nput k plus 1 into s\ngive back s\n\n";

pub struct C05 {
    fams: Vec<(String, Space<String>)>,
}

fn program(body: &[&'static str], main: &[&'static str]) -> String {
    format!("{}zed takes u\n{}\n{}", PRELUDE, body.concat(), main.concat())
}

/// statements that name several variables, each followed by every pronoun use: the referent is the
/// variable named last during evaluation (the reference decides which cells are determined)
pub const NAMING: &[&str] = &[
    "say w at j\n",
    "say w at k\n",
    "say v at k at j\n",
    "say w at j plus x\n",
    "say x plus y\n",
    "say y minus x\n",
    "say x plus y, j\n",
    "say f and y\n",
    "say x and y\n",
    "say x or y\n",
    "say f or y\n",
    "say not x\n",
    "say w at j is y\n",
    "say x is y\n",
    "put x plus y into z\n",
    "put w at j into z\n",
    "put w at j into v at k\n",
    "build x up\n",
    "listen to y\n",
    "turn up x\n",
    "roll w\n",
    "roll w into y\n",
    "rock w with x\n",
    "cut s into p\n",
    "cut s into p with d\n",
    "join v at 1 into p\n",
    "cast n into p with j\n",
    "say yod taking x\n",
    "say x plus yod taking y\n",
    "say yod taking x plus y\n",
    "if x is y\n@\n",
    "if x is y\nsay 1\nelse\n@\n",
    "if y is x\nsay 1\n\n",
    "while j is less than k\nbuild j up\n@\n",
    "until k is j\nbuild j up\n@\n",
    "until k is j\nbuild j up\n\n",
    "say w at j\nsay 1\n",
    "say x\nsay \"lit\"\n",
];
pub const PRONOUN_USES: &[&str] = &["say it\n", "build it up\n", "put 9 into it\n", "say it plus 1\nsay it\n", "rock it with 3\n", "let it at 0 be 7\n", "give back it\n"];
const NAMING_PRELUDE: &str = "put 1 into x\nput 2 into y\nput 0 into j\nput 1 into k\nput false into f\nput \"p,q\" into s\nput \",\" into d\nput \"11\" into n\nrock w with 4, 5\nrock v with 7\nrock v with w\nyod takes k\ngive back k plus 1\n\n";
const NAMING_OBSERVE: &str = "say x\nsay y\nsay j\nsay k\nsay w\nsay w at 0\nsay w at 1\nsay v at 1 at 0\nsay p\nsay z\n";

fn naming_programs() -> Vec<String> {
    let mut out = Vec::new();
    for n in NAMING {
        for u in PRONOUN_USES {
            let body = if n.contains('@') { n.replace('@', u.trim_end()) } else { format!("{}{}", n, u) };
            // at top level and inside a function
            if !u.starts_with("give back") {
                out.push(format!("{}{}{}", NAMING_PRELUDE, body, NAMING_OBSERVE));
            }
            out.push(format!("{}fun takes q\n{}give back 0\n\nsay fun taking 1\n{}", NAMING_PRELUDE, body, NAMING_OBSERVE));
        }
    }
    out
}

/// a local of each name kind in one scope, then a later scope of every kind (block, iteration, call) that
/// must not see it; `@` is the local, `#` a second name of the same kind
pub const SCOPE_SHAPES: &[&str] = &[
    "if true\nput 1 into @\nsay @\n\nif true\nsay @\n\n",
    "if true\nput 1 into @\n\nif true\nrock @ with 5\nsay @\n\n",
    "if true\nput 1 into @\n\nif false\nsay 0\nelse\nsay @\n\n",
    "put 0 into c\nwhile c is less than 3\nbuild c up\nrock @ with 1\nsay @\n\n",
    "put 0 into c\nwhile c is less than 2\nbuild c up\nif c is 2\nsay @\n\nput c into @\n\n",
    "put 0 into c\nuntil c is 2\nbuild c up\nrock # with c\nsay #\nput 1 into @\n\nif true\nsay @\n\n",
    "mk takes k\nput k into @\ngive back @\n\nsay mk taking 1\nif true\nsay @\n\n",
    "mk takes @\ngive back @\n\nsay mk taking 1\nmo takes k\ngive back @\n\nsay mo taking 2\n",
    "mk takes @\nrock @ with 1\ngive back @\n\nsay mk taking 1\nsay mk taking 1\nsay mk taking 1\n",
    "mk takes k\n# takes j\ngive back j plus 1\n\ngive back # taking k\n\nsay mk taking 1\nif true\nsay # taking 2\n\n",
    "if true\nput 1 into @\n\nsay 5\nuntil true\nsay 6\n\nif true\nput 2 into #\nsay #\nsay @\n\n",
    "if true\nif true\nput 1 into @\n\nif true\nsay @\n\n\n",
    "put 7 into @\nif true\nput 1 into @\nput 2 into #\n\nsay @\nif true\nsay #\n\n",
    "mk takes k\nif k\nput 1 into @\n\nif k\nsay @\n\ngive back 0\n\nsay mk taking 1\n",
];
pub const SCOPE_NAMES: &[(&str, &str)] = &[("zork", "yelp"), ("the zork", "my yelp"), ("Zork Yod", "Yelp Qux"), ("ZORK", "Yelp"), ("Élan Zork", "Über Yelp Zed")];

fn scope_programs() -> Vec<String> {
    let mut v = Vec::new();
    for sh in SCOPE_SHAPES {
        for (a, b) in SCOPE_NAMES {
            v.push(sh.replace('@', a).replace('#', b));
        }
    }
    v
}

fn build(tier: Tier) -> Box<dyn Check> {
    let b: Space<&'static str> = Space::of(BODY.to_vec());
    let m: Space<&'static str> = Space::of(MAIN.to_vec());
    let bodies = b.seq_range(1, tier.pick(2, 3));
    let mains = m.seq_range(1, 2);
    let f1 = bodies.product(&mains, |b, m| program(&b, &m));
    let f2 = b.seq_range(1, 1).product(&m.seq_range(3, 3), |b, m| program(&b, &m));
    if tier == Tier::Thorough {
        let f3 = b.seq_range(2, 2).product(&m.seq_range(3, 3), |b, m| program(&b, &m));
        return Box::new(C05 { fams: vec![("body x caller".into(), f1), ("one-statement body x 3 caller statements".into(), f2), ("thresholds".into(), Space::of(super::scale::programs())), ("pronoun after naming".into(), Space::of(naming_programs())), ("locals in consecutive scopes".into(), Space::of(scope_programs())), ("two-statement body x 3 caller statements".into(), f3)] });
    }
    Box::new(C05 { fams: vec![("body x caller".into(), f1), ("one-statement body x 3 caller statements".into(), f2), ("thresholds".into(), Space::of(super::scale::programs())), ("pronoun after naming".into(), Space::of(naming_programs())), ("locals in consecutive scopes".into(), Space::of(scope_programs()))] })
}

impl Check for C05 {
    fn families(&self) -> Vec<(String, u64)> {
        self.fams.iter().map(|(n, s)| (n.clone(), s.len())).collect()
    }
    fn describe(&self, fam: usize, idx: u64) -> Value {
        json!({ "text": self.fams[fam].1.get(idx) })
    }
    fn run_case(&self, fam: usize, idx: u64, ctx: &mut Ctx) {
        let text = self.fams[fam].1.get(idx);
        ctx.case_text(&text);
        let opts = JudgeOpts { limits: crate::refmodel::interp::Limits { steps: 3_000_000, depth: 150 }, ..Default::default() };
        let (j, _) = judge(&text, b"", &opts, ctx);
        if let Judged::Agree | Judged::Violation = j {
            ctx.nontrivial();
        }
    }
    fn static_coverage(&self) -> Value {
        json!({"naming_statements": NAMING, "pronoun_uses": PRONOUN_USES, "body_alphabet": BODY, "caller_alphabet": MAIN, "prelude": PRELUDE})
    }
}

//! Lexeme alphabet: one lexeme for each TokenType the parser can distinguish, plus the spellings
//! it inspects. Lexemes are joined by single spaces (the newline lexeme is "\n").
pub const LEXEMES: &[&str] = &[
    // names and literals
    "x", "Zed", "Yod", "\"s\"", "1", "mysterious", "null", "true", "wrong", "empty", "the", "it",
    // operators and assignment words
    "at", "like", "plus", "minus", "-", "times", "over", "is", "isnt", "says", "put", "into", "let", "be", "with",
    "not", "x's", "x're", "and", "or", "nor", "as", "big", "bigger", "small", "smaller", "than", ">", ">=", "<", "<=",
    // control
    "if", "else", "while", "until", "continue", "break", "take", "top", "say", "shout", "listen", "to", "build",
    "knock", "up", "down", "cut", "join", "cast", "turn", "round", "rock", "roll", "takes", "taking", "return",
    "give", "back", "&", "'n'", ",", ".", "\n",
    // comments, multi-line tokens, error tokens
    "(c)", "(a\nb)", "\"a\nb\"", "a1", "_", "\"u", "(u", "€", "x€", "“x”", "İx's",
];

pub fn join(lexemes: &[&str]) -> String {
    let mut s = String::new();
    for (i, l) in lexemes.iter().enumerate() {
        if i > 0 {
            s.push(' ');
        }
        s.push_str(l);
    }
    s
}

/// split a program text into lexemes at single spaces, keeping "\n" as its own lexeme
pub fn split(text: &str) -> Vec<String> {
    let mut out = Vec::new();
    for (li, line) in text.split('\n').enumerate() {
        if li > 0 {
            out.push("\n".to_string());
        }
        for w in line.split(' ') {
            if !w.is_empty() {
                out.push(w.to_string());
            }
        }
    }
    out
}

pub fn unsplit(lexemes: &[String]) -> String {
    let mut s = String::new();
    let mut bol = true;
    for l in lexemes {
        if l == "\n" {
            s.push('\n');
            bol = true;
        } else {
            if !bol {
                s.push(' ');
            }
            s.push_str(l);
            bol = false;
        }
    }
    s
}

#!/bin/bash
# try_seed.sh <patch> <Cxx> [more checks...]: apply the change to /repo, run the quick checks, undo it.
set -u
patch="$1"; shift
cd /verif || exit 2
git -C /repo diff --quiet || { echo "/repo is not clean"; exit 2; }
git -C /repo apply "$patch" || { echo "patch does not apply"; exit 2; }
for c in "$@"; do
  ./check "$c" quick > /verif/target/seed.$c.log 2>&1; rc=$?
  n=$(grep -c '^VIOLATION' /verif/target/seed.$c.log)
  echo "$c rc=$rc violations=$n $(grep -m1 -A2 '^VIOLATION' /verif/target/seed.$c.log | sed -n '2,3p' | tr '\n' ' ' | cut -c1-260)"
done
git -C /repo checkout -- .

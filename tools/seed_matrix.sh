#!/bin/bash
# seed_matrix.sh [all]: re-run every archived seeded change against its owning check (quick tier)
# in private copies (a worktree of /repo and a worktree of /verif), so /repo itself is not touched.
# With "all", every seed is run against all 20 checks. Results: /verif/seeded/MATRIX.txt
set -u
R=/tmp/seedmx-repo; V=/tmp/seedmx-verif
git -C /repo worktree remove --force $R >/dev/null 2>&1; git -C /verif worktree remove --force $V >/dev/null 2>&1
git -C /repo worktree add -q --detach $R HEAD || exit 2
git -C /verif worktree add -q --detach $V HEAD || exit 2
sed -i "s|path = \"/repo\"|path = \"$R\"|" $V/mc/Cargo.toml
export RRSS_REPO=$R
out=/verif/seeded/MATRIX.txt; : > $out.tmp
echo "# seeded change x check (quick tier) at /verif $(git -C /verif rev-parse --short HEAD), /repo $(git -C /repo rev-parse --short HEAD)" >> $out.tmp
for d in /verif/seeded/C*/; do
  id=$(basename $d); owner=${id:0:3}
  if ! git -C $R apply $d/patch.diff 2>/dev/null; then echo "$id patch-does-not-apply-to-HEAD" >> $out.tmp; continue; fi
  # the owning check plus every check named in the recorded result ("DETECTED ... by C02", "also C12")
  extra=$(python3 -c "import json,re,sys; m=json.load(open('$d/meta.json')); print(' '.join(sorted(set(re.findall(r'C[0-2][0-9]', m.get('result',''))) - {'$owner'})))" 2>/dev/null)
  checks="$owner $extra"; [ "${1:-}" = "all" ] && checks="C01 C02 C03 C04 C05 C06 C07 C08 C09 C10 C11 C12 C13 C14 C15 C16 C17 C18 C19 C20"
  line="$id"
  for c in $checks; do
    $V/check $c quick > /tmp/seedmx.log 2>&1; rc=$?
    n=$(grep -c '^VIOLATION' /tmp/seedmx.log)
    if [ $rc -eq 1 ]; then line="$line $c:DETECTED($n)"; elif [ $rc -eq 0 ]; then line="$line $c:silent"; else line="$line $c:machinery($rc)"; fi
  done
  echo "$line" >> $out.tmp
  git -C $R checkout -q -- .
done
mv $out.tmp $out
git -C /repo worktree remove --force $R; git -C /verif worktree remove --force $V; rm -f /tmp/seedmx.log

//! C07 — split, join, cast and rounding transform values exactly and only their target.
use super::judge::{judge, JudgeOpts, Judged};
use super::universe::{ctor, U};
use crate::engine::space::{strings, Space};
use crate::engine::*;
use crate::refmodel::interp::{End, Interp, Limits};
use crate::refmodel::rast::{self, Name};
use crate::refmodel::value::V;
use serde_json::{json, Value};

pub const DEF: PropDef = PropDef {
    id: "C07",
    level: "exploration",
    rule: "complete enumeration of: all strings <=4 over {a,b,é,comma,space,😀} x all delimiters <=2 over the same alphabet (plus none); all arrays of <=3 strings from a 4-string set with a non-string at each position, dictionary-only and empty arrays x 5 delimiters; all numeral strings <=3 (thorough <=4) over {0 1 9 a f F z - + . e space é €} x 35 radices; 33 boundary code points; 20 rounding boundaries x 4 direction spellings x 2 word orders; every wrong operand kind of U; each operation in up to 8 operand/destination forms (in place on variable / pronoun; into variable / subscript / pronoun from variable / pronoun / subscript / literal); after each operation the result AND the operand are observed element by element; expected from naive reference algorithms; non-trivial = judged; distinct = distinct program text",
    assumptions: &["reference algorithms in refmodel/value.rs (left-to-right non-overlapping split, hand-written radix parser, char::from_u32, ceil/floor/half-up)", "negative rounding ties, exotic numerals (inf/nan/padded) are skipped as unspecified"],
    build,
    exhaustive: true,
};

/// a program before observation: statements + the expressions to observe afterwards
#[derive(Clone)]
pub struct Base {
    pub text: String,
    pub observe: Vec<&'static str>,
}

fn lit(s: &str) -> String {
    format!("\"{}\"", s)
}

/// the 8 operand/destination forms. `setup` must leave the operand value in variable x.
/// op = "cut" | "join" | "cast"; with = "" or " with P"
fn forms(setup_x: &str, operand_literal: Option<&str>, op: &str, with: &str) -> Vec<Base> {
    let mut v = vec![
        Base { text: format!("{}{} x{}\n", setup_x, op, with), observe: vec!["x"] },
        Base { text: format!("{}{} it{}\n", setup_x, op, with), observe: vec!["x"] },
        Base { text: format!("{}{} x into y{}\n", setup_x, op, with), observe: vec!["y", "x"] },
        Base { text: format!("{}{} it into y{}\n", setup_x, op, with), observe: vec!["y", "x"] },
        Base { text: format!("{}rock w with x\n{} w at 0 into y{}\n", setup_x, op, with), observe: vec!["y", "w"] },
        Base { text: format!("{}{} x into w at 1{}\n", setup_x, op, with), observe: vec!["w", "x"] },
        Base { text: format!("{}put 0 into y\n{} x into it{}\n", setup_x, op, with), observe: vec!["y", "x"] },
    ];
    if let Some(l) = operand_literal {
        v.push(Base { text: format!("{} {} into y{}\n", op, l, with), observe: vec!["y"] });
    }
    v
}

fn two_forms(setup_x: &str, op: &str, with: &str) -> Vec<Base> {
    vec![
        Base { text: format!("{}{} x{}\n", setup_x, op, with), observe: vec!["x"] },
        Base { text: format!("{}{} x into y{}\n", setup_x, op, with), observe: vec!["y", "x"] },
    ]
}

pub fn observe_value(expr: &str, v: &V, depth: usize, out: &mut String) {
    // a zero is observed through the sign of its reciprocal (the spelling of -0 is U-numtext)
    if let V::Num(n) = v {
        if *n == 0.0 {
            out.push_str(&format!("say 1 over {} is greater than 0\n", expr));
            if n.is_sign_negative() {
                out.push_str(&format!("say {} plus 1\n", expr));
                return;
            }
        }
    }
    out.push_str(&format!("say {}\n", expr));
    match v {
        V::Arr(a) => {
            for j in 0..=a.seq.len() {
                out.push_str(&format!("say {} at {}\n", expr, j));
            }
            out.push_str(&format!("say {} at \"k\"\n", expr));
            if depth > 0 {
                for (j, e) in a.seq.iter().enumerate() {
                    if let V::Arr(_) = e {
                        observe_value(&format!("{} at {}", expr, j), e, depth - 1, out);
                    } else {
                        out.push_str(&format!("say {} at {} plus 1\n", expr, j));
                    }
                }
            }
        }
        _ => out.push_str(&format!("say {} plus 1\n", expr)),
    }
}

pub fn with_observation(b: &Base) -> Option<String> {
    let prog = rrss::frontend::parser::parse(&b.text).ok()?;
    let r = rast::program(&prog);
    let mut it = Interp::new(b"", false, Limits::default());
    let o = it.run(&r);
    match o.end {
        End::Ok => {
            let mut s = b.text.clone();
            for name in &b.observe {
                if let Some(v) = it.global(&Name::Simple(name.to_string())) {
                    observe_value(name, &v, 1, &mut s);
                }
            }
            Some(s)
        }
        _ => Some(b.text.clone()),
    }
}

pub struct C07 {
    fams: Vec<(String, Space<Base>)>,
}

const SPLIT_SYMS: &[&str] = &["a", "b", "é", ",", " ", "😀"];
const JOIN_STRS: &[&str] = &["", "a", "b,", "é"];
const NUMERAL_SYMS: &[&str] = &["0", "1", "9", "a", "f", "F", "z", "-", "+", ".", "e", " ", "é", "€"];
const RADICES: &[&str] = &["", " with 2", " with 3", " with 8", " with 10", " with 16", " with 35", " with 36", " with 2.0", " with 16 plus 0", " with \"16\"", " with true", " with mysterious", " with 65536", " with 4294967298", " with 0", " with 1", " with 37", " with -1", " with 2.5", " with 1e30", " with 0 over 0", " with \"x\"", " with null", " with 258", " with 272", " with 65552", " with 4294967312", " with -16", " with -2", " with 16.9", " with 15.999999999999998", " with 1 over 0", " with 9223372036854775808"];
const CODEPOINTS: &[&str] = &["0", "65", "127", "128", "233", "255", "256", "2047", "2048", "55295", "55296", "56000", "57343", "57344", "65535", "65536", "128512", "1114111", "1114112", "2147483648", "4294967296", "4294967361", "-4294967231", "9223372036854775808", "-1", "-65", "1.5", "65.5", "0 over 0", "1 over 0", "-1 over 0", "1e30", "0 times -1"];
const ROUND_VALUES: &[&str] = &["0", "0 times -1", "0.4", "-0.4", "0.5", "-0.5", "1.5", "2.5", "-2.5", "2.6", "-2.6", "2251799813685248.5", "4503599627370497", "9007199254740992", "0.49999999999999994", "1000000000000000.5", "1e300", "0 over 0", "1 over 0", "-1 over 0"];

fn build(tier: Tier) -> Box<dyn Check> {
    let mut fams: Vec<(String, Space<Base>)> = Vec::new();
    // ---- split
    let strs = strings(SPLIT_SYMS, 0, 4);
    let delims: Space<String> = Space::union(vec![Space::one(String::new()), strings(SPLIT_SYMS, 0, 2).map(|d| format!(" with {}", lit(&d)))]);
    let two: Space<usize> = Space::of(vec![0, 1]);
    fams.push((
        "split".into(),
        strs.product(&delims, |s, d| (s, d)).product(&two, |(s, d), f| two_forms(&format!("put {} into x\n", lit(&s)), "cut", &d)[f].clone()),
    ));
    let small_strs = strings(SPLIT_SYMS, 0, 2);
    let small_delims: Space<&'static str> = Space::of(vec!["", " with \"\"", " with \",\"", " with \"a\"", " with 1", " with null"]);
    let eight: Space<usize> = Space::of((0..8).collect());
    fams.push((
        "split-forms".into(),
        small_strs.product(&small_delims, |s, d| (s, d)).product(&eight, |(s, d), f| forms(&format!("put {} into x\n", lit(&s)), Some(&lit(&s)), "cut", d)[f].clone()),
    ));
    // ---- join
    let js: Space<&'static str> = Space::of(JOIN_STRS.to_vec());
    let elems: Space<String> = Space::union(vec![js.map(|s| lit(s)), Space::of(vec!["1".to_string(), "null".to_string(), "ea".to_string()])]);
    let arrays: Space<String> = Space::union(vec![
        Space::one("rock ea\nrock x\n".to_string()),
        elems.seq_range(1, 3).map(|v| format!("rock ea\nrock x with {}\n", v.join(", "))),
        Space::of(vec![
            "let x at \"k\" be \"v\"\n".to_string(),
            "let x at \"k\" be 1\n".to_string(),
            "let x at true be \"t\"\n".to_string(),
            "rock x with \"a\"\nlet x at \"k\" be \"v\"\n".to_string(),
            "let x at \"k\" be \"v\"\nlet x at \"j\" be \"v\"\n".to_string(),
        ]),
    ]);
    let jdelims: Space<&'static str> = Space::of(vec!["", " with \"\"", " with \",\"", " with \"ab\"", " with 1", " with mysterious"]);
    fams.push(("join".into(), arrays.product(&jdelims, |a, d| (a, d)).product(&two, |(a, d), f| two_forms(&a, "join", d)[f].clone())));
    let small_arrays: Space<&'static str> = Space::of(vec!["rock x\n", "rock x with \"a\"\n", "rock x with \"a\", \"b\"\n", "rock x with \"a\", 1\n"]);
    let seven: Space<usize> = Space::of((0..7).collect());
    fams.push((
        "join-forms".into(),
        small_arrays.product(&jdelims, |a, d| (a, d)).product(&seven, |(a, d), f| forms(a, None, "join", d)[f].clone()),
    ));
    // ---- cast string -> number
    let numerals = strings(NUMERAL_SYMS, 0, tier.pick(4, 5));
    let radices: Space<&'static str> = Space::of(RADICES.to_vec());
    fams.push((
        "cast-string".into(),
        numerals.product(&radices, |s, r| (s, r)).product(&two, |(s, r), f| two_forms(&format!("put {} into x\n", lit(&s)), "cast", r)[f].clone()),
    ));
    let small_numerals: Space<&'static str> = Space::of(vec!["", "10", "-1", "1.5", "ff", "1e3", "z", " 1"]);
    let small_radices: Space<&'static str> = Space::of(vec!["", " with 16", " with 1", " with \"x\""]);
    fams.push((
        "cast-string-forms".into(),
        small_numerals.product(&small_radices, |s, r| (s, r)).product(&eight, |(s, r), f| forms(&format!("put {} into x\n", lit(s)), Some(&lit(s)), "cast", r)[f].clone()),
    ));
    // long numerals: i64 and f64 boundaries
    let longs: Space<&'static str> = Space::of(vec!["9223372036854775807", "9223372036854775808", "-9223372036854775808", "-9223372036854775809", "99999999999999999999", "00000000000000000000001", "+5", "-0", "0.1e1", "1e308", "1e309", "-1e309", "123456789.123456789", "7fffffffffffffff", "8000000000000000", "-8000000000000000", "zzzzzzzzzzzzz", "ZZ", "Ff", "1_0", "0x10", "１２"]);
    let lrad: Space<&'static str> = Space::of(vec!["", " with 10", " with 16", " with 36", " with 2"]);
    fams.push(("cast-long-numerals".into(), longs.product(&lrad, |s, r| (s, r)).product(&two, |(s, r), f| two_forms(&format!("put {} into x\n", lit(s)), "cast", r)[f].clone())));
    // ---- cast number -> character
    let cps: Space<&'static str> = Space::of(CODEPOINTS.to_vec());
    let cparams: Space<&'static str> = Space::of(vec!["", " with 2", " with \"x\"", " with mysterious"]);
    fams.push((
        "cast-number".into(),
        cps.product(&cparams, |c, p| (c, p)).product(&seven, |(c, p), f| forms(&format!("put {} into x\n", c), None, "cast", p)[f].clone()),
    ));
    // ---- rounding
    let rvals: Space<&'static str> = Space::of(ROUND_VALUES.to_vec());
    let rforms: Space<&'static str> = Space::of(vec![
        "turn up x\n", "turn x up\n", "turn down x\n", "turn x down\n", "turn round x\n", "turn x round\n", "turn around x\n", "turn x around\n",
        "turn it up\n", "turn down it\n", "turn it around\n",
        "rock w with x\nturn up w at 0\n", "rock w with x\nturn w at 0 down\n", "rock w with x\nturn round w at 0\n",
        "turn up x plus 1\n", "turn up 1.5\n",
    ]);
    fams.push((
        "rounding".into(),
        rvals.product(&rforms, |v, f| Base { text: format!("put {} into x\n{}", v, f), observe: if f.contains("w at 0") { vec!["w", "x"] } else { vec!["x"] } }),
    ));
    // ---- wrong operand kinds
    let u: Space<usize> = Space::of((0..U.len()).collect());
    let wops: Space<(&'static str, &'static str)> = Space::of(vec![
        ("cut", ""), ("cut", " with \",\""), ("join", ""), ("join", " with \",\""), ("cast", ""), ("cast", " with 16"),
    ]);
    fams.push(("wrong-kinds".into(), u.product(&wops, |a, o| (a, o)).product(&two, |(a, (op, w)), f| two_forms(&ctor(a, "x"), op, w)[f].clone())));
    let wturn: Space<&'static str> = Space::of(vec!["turn up x\n", "turn x down\n", "turn around x\n"]);
    fams.push(("wrong-kinds-rounding".into(), u.product(&wturn, |a, t| Base { text: format!("{}{}", ctor(a, "x"), t), observe: vec!["x"] })));
    // parameters of every kind
    let pops: Space<&'static str> = Space::of(vec!["put \"a,b\" into x\ncut x with y\n", "rock x with \"a\", \"b\"\njoin x with y\n", "put \"11\" into x\ncast x with y\n", "put 65 into x\ncast x with y\n"]);
    fams.push(("parameter-kinds".into(), u.product(&pops, |b, o| Base { text: format!("{}{}", ctor(b, "y"), o), observe: vec!["x", "y"] })));
    Box::new(C07 { fams })
}

impl Check for C07 {
    fn families(&self) -> Vec<(String, u64)> {
        self.fams.iter().map(|(n, s)| (n.clone(), s.len())).collect()
    }
    fn describe(&self, fam: usize, idx: u64) -> Value {
        let b = self.fams[fam].1.get(idx);
        json!({ "text": with_observation(&b).unwrap_or(b.text) })
    }
    fn run_case(&self, fam: usize, idx: u64, ctx: &mut Ctx) {
        let b = self.fams[fam].1.get(idx);
        let text = match with_observation(&b) {
            Some(t) => t,
            None => {
                ctx.case_text(&b.text);
                ctx.violation("unexpected-parse-error", format!("generated program does not parse: {:?}", b.text));
                return;
            }
        };
        ctx.case_text(&text);
        let (j, _) = judge(&text, b"", &JudgeOpts::default(), ctx);
        if let Judged::Agree | Judged::Violation = j {
            ctx.nontrivial();
        }
    }
    fn static_coverage(&self) -> Value {
        json!({"split_symbols": SPLIT_SYMS, "join_strings": JOIN_STRS, "numeral_symbols": NUMERAL_SYMS, "radices": RADICES, "code_points": CODEPOINTS, "rounding_values": ROUND_VALUES})
    }
}

//! C15 — renaming variables and re-casing names or keywords never changes behaviour (metamorphic).
use crate::engine::space::Space;
use crate::engine::*;
use crate::subject;
use serde_json::{json, Value};

pub const DEF: PropDef = PropDef {
    id: "C15",
    level: "exploration",
    rule: "58 base programs with up to 3 name placeholders in every name position (targets, operands, subscripts, listen, build/knock, rock/roll, mutation operand / destination, parameters, function and call names, poetic assignment, pronoun referents, erroring uses, 's / 're contractions, a name shared by a function and a parameter or variable); for each: all 8^k fillings from three name kinds x two alphabets (simple zed / élan, common the zed / my élan, proper Zed Yod / Élan Über Zed) plus simple and common names with a digraph letter that has a third, title-case form (U+01C4..U+01CC; distinct words per placeholder so that distinct spellings denote distinct variables); for every filling every single mention re-cased in each admissible way (proper names keep their capitals; digraph letters also in title case), all mentions re-cased at once, (thorough) all pairs of re-cased mentions, and all keywords upper-cased / title-cased / aLtErNaTeD / AlTeRnAtEd; plus 23 pairs of confusable names (names spelling float words such as nan / inf / infinity, same letters with other word breaks, with / without article, other article, with / without accent, swapped words) in 6 shapes, both orders; oracle (metamorphic, no reference interpreter): stdout and outcome class equal those of the all-simple-lowercase filling; non-trivial = every case (two executions compared); distinct = distinct program text",
    assumptions: &["error messages quote names as spelled and are therefore compared by class (ok / runtime error / parse error) only"],
    build,
    exhaustive: true,
};

pub const BASES: &[&str] = &[
    "put 1 into @1\nput @1 plus 1 into @2\nsay @1\nsay @2\n",
    "let @1 be 5\nlet @1 be with 2\nbuild @1 up\nknock @1 down, down\nsay @1\n",
    "rock @1 with 1, 2, 3\nsay @1 at 1\nroll @1 into @2\nsay @2\nsay roll @1\nsay @1\n",
    "let @1 at 0 be 7\nlet @1 at \"k\" be 8\nsay @1 at 0 plus @1 at \"k\"\n",
    "put \"a,b\" into @1\ncut @1 into @2 with \",\"\nsay @2 at 1\njoin @2 into @3 with \"-\"\nsay @3\n",
    "put \"12\" into @1\ncast @1\nsay @1 plus 1\nput 1.5 into @2\nturn up @2\nsay @2\n",
    "listen to @1\nsay @1\nlisten to @2\nsay @2 plus @1\n",
    "@1 takes @2\ngive back @2 plus 1\n\nsay @1 taking 4\n",
    "@1 takes @2, @3\nsay @2\nsay @3\ngive back @2 times @3\n\nsay @1 taking 2, 3\n",
    "@1 takes @2\nif @2 is 0\ngive back 1\n\nput @2 minus 1 into @3\ngive back @2 times @1 taking @3\n\nsay @1 taking 4\n",
    "put 1 into @1\n@2 takes @3\nput @3 into @1\ngive back @1\n\nsay @2 taking 5\nsay @1\n",
    "put 3 into @1\nwhile @1 is greater than 0\nknock @1 down\nsay @1\n\n",
    "@1 is 5\n@2 is a lovely day\n@3 says hello\nsay @1\nsay @2\nsay @3\n",
    "put 1 into @1\nsay it\nput 2 into @2\nsay it\nput it plus 5 into it\nsay @2\n",
    "say @1\n",
    "put 1 into @1\nsay @2\n",
    "put 1 into @1\nsay @1 taking 1\n",
    "@1 takes @2\nsay @2\n\nput 1 into @1\nsay 2\n",
    "rock @1 with @2, @3\nsay @1\n",
    "let @1 be 1\nlet @2 be @1\nlet @1 be 2\nsay @2\nsay @1\n",
    "put 1 into @1\nput 2 into @2\nput 3 into @3\nsay @1 plus @2 times @3\nsay @1 is @2 or @3 is 3\n",
    "rock @1 with 5\nput @1 into @2\nrock @2 with 6\nsay @1\nsay @2\n",
    "put true into @1\nif @1\nput 1 into @2\nsay @2\nelse\nsay 0\n\nsay @1\n",
    "put 0 into @1\nuntil @1 is 3\nbuild @1 up\n\nsay @1\n",
    "@1 takes @2 and @3\ngive back @2 minus @3\n\nput @1 taking 9, 4 into @2\nsay @2\n@1 taking 1, 1\n",
    // contractions are keywords too
    "@1's 5\n@2're 6\nsay @1 plus @2\n",
    "put 1 into @1\nthey're 7\nsay @1\nit's 8\nsay @1\n",
    "@1's 5\nsay @1's 5\nif @1's 5\nsay 1\n\n",
    // a name used for a function and for a parameter / variable (whatever the outcome, it must not depend on case)
    "@1 takes @2\ngive back @2 times 2\n\n@3 takes @1\ngive back @1 taking @1\n\nsay @1 taking 1\nsay @3 taking 4\n",
    "@1 takes @2\ngive back @2 times 2\n\n@3 takes @1\ngive back @1 plus 1\n\nsay @1 taking 1\nsay @3 taking 4\nsay @1 taking 2\n",
    "@1 takes @1\nsay @1\ngive back 0\n\nsay @1 taking 3\nsay @1 taking 4\n",
    "@1 takes @2\ngive back @2\n\nsay @1 taking 1\nif true\nput 5 into @1\nsay @1 taking 2\n\nsay @1 taking 3\n",
    "@1 takes @2\ngive back @2\n\nsay @1 taking 1\nsay @1 taking 2\nput 0 into @3\nwhile @3 is less than 2\nbuild @3 up\nsay @1 taking @3\n\n",
    "put 1 into @1\n@2 takes @3\nsay @1\nput 2 into @1\ngive back @1\n\nsay @2 taking 0\nsay @1\nsay @2 taking 0\nsay @1\n",
    "put 1 into @1\nif true\nput 2 into @2\nsay @1 plus @2\n\nsay @2\n",
    // the same name twice where names must differ, or in two roles at once
    "@1 takes @2 and @2\nsay 1\ngive back @2\n\nsay 2\nsay @1 taking 1, 2\nsay 3\n",
    "@1 takes @2 and @3 and @2\ngive back @3\n\nsay 2\n",
    "@1 takes @2\ngive back @2\n\nsay 1\n@1 takes @3\ngive back 5\n\nsay @1 taking 2\n",
    "put 1 into @1\nsay 1\n@1 takes @2\ngive back @2\n\nsay 2\nsay @1\n",
    "rock @1 with 1\nlet @1 at @1 be 2\nsay @1\n",
    // a call after the list separator of another call's arguments
    "@1 takes @2\ngive back @2\n\nsay @1 taking 1 and @1 taking 2\nsay 5\n",
    "@1 takes @2 and @3\ngive back @2 plus @3\n\nsay @1 taking 1, 2 and @1 taking 3, 4\nsay 5\n",
    "@1 takes @2\ngive back @2\n\nsay @1 taking 1, and @1 taking 2\nsay @1 taking 1 & @1 taking 2\nsay @1 taking 1 'n' @1 taking 2\n",
    "@1 takes @2\ngive back @2\n\n@3 takes @2\ngive back @2 plus 1\n\nsay @1 taking 1 and @3 taking 2\nsay @1 taking @3 taking 1 and @1 taking 2\n",
    // a local in one scope, then a later scope of every kind (the shapes of C05's scope family)
    "if true\nput 1 into @1\nsay @1\n\nif true\nsay @1\n\n",
    "if true\nput 1 into @1\n\nif true\nrock @1 with 5\nsay @1\n\n",
    "if true\nput 1 into @1\n\nif false\nsay 0\nelse\nsay @1\n\n",
    "put 0 into c\nwhile c is less than 3\nbuild c up\nrock @1 with 1\nsay @1\n\n",
    "put 0 into c\nwhile c is less than 2\nbuild c up\nif c is 2\nsay @1\n\nput c into @1\n\n",
    "put 0 into c\nuntil c is 2\nbuild c up\nrock @2 with c\nsay @2\nput 1 into @1\n\nif true\nsay @1\n\n",
    "mk takes k\nput k into @1\ngive back @1\n\nsay mk taking 1\nif true\nsay @1\n\n",
    "mk takes @1\ngive back @1\n\nsay mk taking 1\nmo takes k\ngive back @1\n\nsay mo taking 2\n",
    "mk takes @1\nrock @1 with 1\ngive back @1\n\nsay mk taking 1\nsay mk taking 1\nsay mk taking 1\n",
    "mk takes k\n@2 takes j\ngive back j plus 1\n\ngive back @2 taking k\n\nsay mk taking 1\nif true\nsay @2 taking 2\n\n",
    "if true\nput 1 into @1\n\nsay 5\nuntil true\nsay 6\n\nif true\nput 2 into @2\nsay @2\nsay @1\n\n",
    "if true\nif true\nput 1 into @1\n\nif true\nsay @1\n\n\n",
    "put 7 into @1\nif true\nput 1 into @1\nput 2 into @2\n\nsay @1\nif true\nsay @2\n\n",
    "mk takes k\nif k\nput 1 into @1\n\nif k\nsay @1\n\ngive back 0\n\nsay mk taking 1\n",
];

/// pairs of names that a lossy key (dropped word breaks, dropped article, folded accents) would merge
pub const CONFUSABLE: &[(&str, &str)] = &[
    // names that spell something another token kind also spells (float words)
    ("nan", "inf"),
    ("NaN", "Infinity"),
    ("Nan Goldin", "Infinity War"),
    ("the nan", "my infinity"),
    ("Sun Dance", "Sund Ance"),
    ("Zed Yod", "Zed Yod Qux"),
    ("Ab Cd", "Ab Cd Ef Gh"),
    ("Zed Yod Qux", "Yod Qux"),
    ("Zed Yod", "Zedyod"),
    ("Zed Yod Qux", "Zed Yodqux"),
    ("Zed Yod Qux", "Zedyod Qux"),
    ("Ab Cd", "Abc D"),
    ("the zed", "thezed"),
    ("the zed", "a zed"),
    ("the zed", "zed"),
    ("my zed", "your zed"),
    ("the zed", "The Zedd"),
    ("élan", "elan"),
    ("zed", "zéd"),
    ("Élan Zed", "Elan Zed"),
    ("zed", "zedd"),
    ("Zed Yod", "Yod Zed"),
    ("Yod Zed Qux", "Yod Qux Zed"),
];
pub const CONFUSABLE_SHAPES: &[&str] = &[
    "put 1 into A\nput 2 into B\nsay A\nsay B\n",
    "fun takes A and B\nsay A\nsay B\ngive back A minus B\n\nsay fun taking 5, 3\n",
    "A takes k\ngive back 1\n\nB takes k\ngive back 2\n\nsay A taking 0\nsay B taking 0\n",
    "rock A with 1\nrock B with 2, 3\nsay A\nsay B\nput 9 into A\nsay B\n",
    "put 1 into A\nif true\nput 2 into B\nsay A\n\nsay A\n",
    "A takes B\ngive back B plus 1\n\nsay A taking 1\n",
];

fn confusable_case(idx: u64) -> (String, String, String) {
    let n = CONFUSABLE.len() as u64;
    let sh = CONFUSABLE_SHAPES[(idx / (2 * n)) as usize];
    let (a, b) = CONFUSABLE[((idx / 2) % n) as usize];
    let (a, b) = if idx % 2 == 0 { (a, b) } else { (b, a) };
    let fill = |x: &str, y: &str| -> String {
        let mut out = String::new();
        for ch in sh.chars() {
            match ch {
                'A' => out.push_str(x),
                'B' => out.push_str(y),
                c => out.push(c),
            }
        }
        out
    };
    (fill("zed", "yod"), fill(a, b), format!("confusable names {:?} / {:?}", a, b))
}

/// per placeholder: (spelling, kind) — kind 0 simple, 1 common, 2 proper
pub const POOLS: [[(&str, u8); 8]; 3] = [
    [("zed", 0), ("élan", 0), ("the zed", 1), ("my élan", 1), ("Zed Yod", 2), ("Élan Über Zed", 2), ("\u{1c6}em", 0), ("the \u{1c6}em", 1)],
    [("yod", 0), ("über", 0), ("the yod", 1), ("your über", 1), ("Yod Qux", 2), ("Über Élan Yod", 2), ("\u{1c9}uba", 0), ("your \u{1c9}uba", 1)],
    [("qux", 0), ("ñu", 0), ("our qux", 1), ("a ñu", 1), ("Qux Zed", 2), ("Ñu Élan Qux", 2), ("\u{1cc}iva", 0), ("a \u{1cc}iva", 1)],
];

fn upper(s: &str) -> String {
    s.to_uppercase()
}
fn title(s: &str) -> String {
    let mut c = s.chars();
    match c.next() {
        Some(f) => f.to_uppercase().collect::<String>() + c.as_str(),
        None => String::new(),
    }
}
fn alternate(s: &str) -> String {
    s.chars().enumerate().map(|(i, c)| if i % 2 == 1 { c.to_uppercase().collect::<String>() } else { c.to_string() }).collect()
}

/// admissible re-casings of one mention
pub fn recasings(name: &str, kind: u8) -> Vec<String> {
    let mut v = Vec::new();
    match kind {
        0 => {
            v.push(upper(name));
            v.push(title(name));
            v.push(alternate(name));
        }
        1 => {
            let (p, w) = name.split_once(' ').unwrap();
            v.push(format!("{} {}", upper(p), w));
            v.push(format!("{} {}", title(p), w));
            v.push(format!("{} {}", p, upper(w)));
            v.push(format!("{} {}", p, title(w)));
            v.push(format!("{} {}", upper(p), upper(w)));
        }
        _ => {
            let ws: Vec<&str> = name.split(' ').collect();
            v.push(ws.iter().map(|w| upper(w)).collect::<Vec<_>>().join(" "));
            let mut first = ws.iter().map(|w| w.to_string()).collect::<Vec<_>>();
            first[0] = upper(&first[0]);
            v.push(first.join(" "));
            // keep the capital, alternate the rest
            v.push(ws.iter().map(|w| title(&alternate(&w.to_lowercase()))).collect::<Vec<_>>().join(" "));
        }
    }
    // letters with a third, title-case form (the digraphs U+01C4..U+01CC): neither upper nor lower case
    if kind < 2 {
        let t: String = name.chars().map(|c| match c { '\u{1c6}' => '\u{1c5}', '\u{1c9}' => '\u{1c8}', '\u{1cc}' => '\u{1cb}', c => c }).collect();
        v.push(t);
    }
    v.retain(|x| x != name);
    v.dedup();
    v
}

fn placeholders(base: &str) -> usize {
    (1..=3).filter(|i| base.contains(&format!("@{}", i))).count()
}

/// positions of the mentions (placeholder index per occurrence, in text order)
fn mentions(base: &str) -> Vec<usize> {
    let b = base.as_bytes();
    let mut v = Vec::new();
    for i in 0..b.len() {
        if b[i] == b'@' {
            v.push((b[i + 1] - b'1') as usize);
        }
    }
    v
}

/// substitute; `per_mention[i]` overrides the spelling of the i-th mention
fn substitute(base: &str, names: &[String], per_mention: &[(usize, String)]) -> String {
    let mut out = String::new();
    let mut k = 0;
    let mut chars = base.chars().peekable();
    while let Some(c) = chars.next() {
        if c == '@' {
            let d = chars.next().unwrap().to_digit(10).unwrap() as usize - 1;
            match per_mention.iter().find(|(i, _)| *i == k) {
                Some((_, s)) => out.push_str(s),
                None => out.push_str(&names[d]),
            }
            k += 1;
        } else {
            out.push(c);
        }
    }
    out
}

/// upper-case (mode 0) or title-case (mode 1) every word outside quotes, placeholders and poetic content
fn recase_keywords(base: &str, mode: usize) -> String {
    let mut out = String::new();
    for line in base.split_inclusive('\n') {
        if line.contains(" says ") || line.contains(" is a ") {
            out.push_str(line);
            continue;
        }
        let mut in_q = false;
        let mut word = String::new();
        let flush = |w: &mut String, out: &mut String| {
            if !w.is_empty() {
                out.push_str(&match mode {
                    0 => upper(w),
                    1 => title(w),
                    2 => alternate(w),
                    _ => title(&alternate(&upper(w).to_lowercase())).chars().enumerate().map(|(i, c)| if i % 2 == 0 { c.to_uppercase().collect::<String>() } else { c.to_lowercase().collect::<String>() }).collect(),
                });
                w.clear();
            }
        };
        let mut chars = line.chars().peekable();
        while let Some(c) = chars.next() {
            if c == '"' {
                flush(&mut word, &mut out);
                in_q = !in_q;
                out.push(c);
            } else if in_q {
                out.push(c);
            } else if c == '@' {
                flush(&mut word, &mut out);
                out.push(c);
                out.push(chars.next().unwrap());
            } else if c.is_alphabetic() {
                word.push(c);
            } else {
                flush(&mut word, &mut out);
                out.push(c);
            }
        }
        flush(&mut word, &mut out);
    }
    out
}

#[derive(Clone, Debug)]
pub enum Variant {
    Filling,
    OneMention(usize, usize),
    AllMentions(usize),
    TwoMentions(usize, usize, usize, usize),
    Keywords(usize),
}

pub struct C15 {
    cases: Space<(usize, Vec<usize>, Variant)>,
}

fn build(tier: Tier) -> Box<dyn Check> {
    let six: Space<usize> = Space::of((0..POOLS[0].len()).collect());
    let mut parts = Vec::new();
    for (bi, base) in BASES.iter().enumerate() {
        let k = placeholders(base);
        let m = mentions(base);
        let fillings = six.seq_exact(k);
        let mut variants = vec![Variant::Filling, Variant::AllMentions(0), Variant::AllMentions(1), Variant::AllMentions(2), Variant::Keywords(0), Variant::Keywords(1), Variant::Keywords(2), Variant::Keywords(3)];
        for i in 0..m.len() {
            for r in 0..5 {
                variants.push(Variant::OneMention(i, r));
            }
        }
        if tier == Tier::Thorough {
            for i in 0..m.len() {
                for j in (i + 1)..m.len() {
                    for r in 0..3 {
                        for s in 0..3 {
                            variants.push(Variant::TwoMentions(i, r, j, s));
                        }
                    }
                }
            }
        }
        let vs: Space<Variant> = Space::of(variants);
        parts.push(fillings.product(&vs, move |f, v| (bi, f, v)));
    }
    Box::new(C15 { cases: Space::union(parts) })
}

impl C15 {
    /// (reference program, transformed program) or None when the variant does not apply
    fn programs(&self, idx: u64) -> Option<(String, String, String)> {
        let (bi, f, v) = self.cases.get(idx);
        let base = BASES[bi];
        let m = mentions(base);
        let reference_names: Vec<String> = (0..3).map(|i| POOLS[i][0].0.to_string()).collect();
        let mut names: Vec<String> = reference_names.clone();
        let mut kinds = [0u8; 3];
        for (i, c) in f.iter().enumerate() {
            names[i] = POOLS[i][*c].0.to_string();
            kinds[i] = POOLS[i][*c].1;
        }
        let reference = substitute(base, &reference_names, &[]);
        let transformed = match &v {
            Variant::Filling => substitute(base, &names, &[]),
            Variant::OneMention(i, r) => {
                let slot = m[*i];
                let rc = recasings(&names[slot], kinds[slot]);
                let s = rc.get(*r)?.clone();
                substitute(base, &names, &[(*i, s)])
            }
            Variant::AllMentions(r) => {
                let per: Vec<(usize, String)> = m.iter().enumerate().filter_map(|(i, slot)| recasings(&names[*slot], kinds[*slot]).get(*r).map(|s| (i, s.clone()))).collect();
                substitute(base, &names, &per)
            }
            Variant::TwoMentions(i, r, j, s) => {
                let a = recasings(&names[m[*i]], kinds[m[*i]]).get(*r)?.clone();
                let b = recasings(&names[m[*j]], kinds[m[*j]]).get(*s)?.clone();
                substitute(base, &names, &[(*i, a), (*j, b)])
            }
            Variant::Keywords(mode) => substitute(&recase_keywords(base, *mode), &names, &[]),
        };
        Some((reference, transformed, format!("{:?} filling {:?}", v, names)))
    }
}

fn class(r: &subject::ExecResult) -> &'static str {
    if r.parse_error.is_some() {
        "parse-error"
    } else if r.result.is_err() {
        "runtime-error"
    } else {
        "ok"
    }
}

impl Check for C15 {
    fn families(&self) -> Vec<(String, u64)> {
        vec![("base x filling x re-casing".into(), self.cases.len()), ("confusable name pairs".into(), (CONFUSABLE.len() * CONFUSABLE_SHAPES.len() * 2) as u64)]
    }
    fn describe(&self, fam: usize, idx: u64) -> Value {
        let progs = if fam == 1 { Some(confusable_case(idx)) } else { self.programs(idx) };
        match progs {
            Some((r, t, how)) => json!({"text": t, "reference_program": r, "transformation": how}),
            None => json!({"text": "<variant does not apply>"}),
        }
    }
    fn run_case(&self, fam: usize, idx: u64, ctx: &mut Ctx) {
        let progs = if fam == 1 { Some(confusable_case(idx)) } else { self.programs(idx) };
        let (reference, transformed, how) = match progs {
            Some(x) => x,
            None => {
                ctx.count("variant_not_applicable");
                return;
            }
        };
        ctx.case_text(&transformed);
        ctx.nontrivial();
        let input = b"a\nb\n";
        let r0 = subject::exec_text(&reference, input);
        let r1 = subject::exec_text(&transformed, input);
        ctx.observe_str(&format!("{}|{}", class(&r1), r1.stdout_str()));
        ctx.count(&format!("outcome.{}", class(&r0)));
        if r0.parse_error.is_some() {
            ctx.violation("unexpected-parse-error", format!("reference program rejected: {:?}", reference));
            return;
        }
        if class(&r0) != class(&r1) || r0.stdout != r1.stdout {
            ctx.violation(
                "behaviour-changed",
                format!("{}: the transformed program {:?} gives {} but the original {:?} gives {}", how, transformed, r1.observe(), reference, r0.observe()),
            );
        }
    }
    fn static_coverage(&self) -> Value {
        json!({"base_programs": BASES.len(), "name_pools": POOLS.iter().map(|p| p.iter().map(|x| x.0).collect::<Vec<_>>()).collect::<Vec<_>>()})
    }
}

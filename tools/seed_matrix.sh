#!/bin/bash
# seed_matrix.sh [all]: re-run every archived seeded change against its owning check (quick tier) and the
# checks named in its recorded result, in private copies (worktrees of /repo and /verif per lane), so /repo
# itself is not touched. LANES parallel lanes (default 3). With "all", every seed meets all 20 checks.
# Result: /verif/seeded/MATRIX.txt
set -u
LANES=${LANES:-3}
out=/verif/seeded/MATRIX.txt
seeds=(/verif/seeded/C*/)
# ONLY=<regex> restricts the run to matching seed ids and merges into the existing MATRIX.txt
if [ -n "${ONLY:-}" ]; then
  sel=(); for d in "${seeds[@]}"; do [[ $(basename $d) =~ $ONLY ]] && sel+=("$d"); done; seeds=("${sel[@]}")
fi
lane() {
  local l=$1 R=/tmp/seedmx-repo-$1 V=/tmp/seedmx-verif-$1 part=/tmp/seedmx-part-$1.txt log=/tmp/seedmx-$1.log
  git -C /repo worktree remove --force $R >/dev/null 2>&1; git -C /verif worktree remove --force $V >/dev/null 2>&1
  git -C /repo worktree add -q --detach $R HEAD || exit 2
  git -C /verif worktree add -q --detach $V HEAD || exit 2
  sed -i "s|path = \"/repo\"|path = \"$R\"|" $V/mc/Cargo.toml
  export RRSS_REPO=$R
  : > $part
  local i=0
  for d in "${seeds[@]}"; do
    i=$((i+1)); [ $((i % LANES)) -eq $l ] || continue
    local id=$(basename $d) owner; owner=${id:0:3}
    if ! git -C $R apply $d/patch.diff 2>/dev/null; then echo "$id patch-does-not-apply-to-HEAD" >> $part; continue; fi
    local extra; extra=$(python3 -c "import json,re; m=json.load(open('$d/meta.json')); print(' '.join(sorted(set(re.findall(r'C[0-2][0-9]', m.get('result',''))) - {'$owner'})))" 2>/dev/null)
    local checks="$owner $extra"; [ "${ALL:-}" = "all" ] && checks="C01 C02 C03 C04 C05 C06 C07 C08 C09 C10 C11 C12 C13 C14 C15 C16 C17 C18 C19 C20"
    local line="$id"
    for c in $checks; do
      $V/check $c quick > $log 2>&1; local rc=$?
      local n; n=$(grep -c '^VIOLATION' $log)
      if [ $rc -eq 1 ]; then line="$line $c:DETECTED($n)"; elif [ $rc -eq 0 ]; then line="$line $c:silent"; else line="$line $c:machinery($rc)"; fi
    done
    echo "$line" >> $part
    git -C $R checkout -q -- .
  done
  git -C /repo worktree remove --force $R; git -C /verif worktree remove --force $V; rm -f $log
}
ALL="${1:-}"
for l in $(seq 0 $((LANES-1))); do lane $l & done
wait
if [ -n "${ONLY:-}" ] && [ -f $out ]; then
  { grep '^#' $out; echo "# rows matching $ONLY re-run at /verif $(git -C /verif rev-parse --short HEAD), /repo $(git -C /repo rev-parse --short HEAD)"; { grep -v '^#' $out | grep -Ev "^($ONLY) " ; cat /tmp/seedmx-part-*.txt; } | sort; } > $out.new; mv $out.new $out
else
  { echo "# seeded change x check (quick tier) at /verif $(git -C /verif rev-parse --short HEAD), /repo $(git -C /repo rev-parse --short HEAD)"; cat /tmp/seedmx-part-*.txt | sort; } > $out
fi
rm -f /tmp/seedmx-part-*.txt
grep -c DETECTED $out

#!/bin/bash
# verify_seed.sh <dir with X.patch.diff and X.demo.rs|sh> <X>   (X = a or b)
# Confirms in a scratch worktree (outside /repo and /verif) that the change compiles, keeps the
# pinned suite passing, and that its demonstration fails with the change and passes without it.
set -u
src="$1"; x="$2"
wt=/tmp/seed-verify-$$
git -C /repo worktree add -q --detach "$wt" HEAD || exit 2
trap 'git -C /repo worktree remove --force "$wt" >/dev/null 2>&1' EXIT
cd "$wt" || exit 2
if ! git apply "$src/$x.patch.diff"; then echo "RESULT patch-does-not-apply"; exit 1; fi
if git diff --name-only | grep -qv '^src/'; then echo "RESULT touches-non-src"; exit 1; fi
base=$(/verif/tools/baseline.sh "$wt" 2>&1 | tail -1)
echo "baseline with change: $base"
case "$base" in *"passing now: 217"*) ;; *) echo "RESULT baseline-broken"; exit 1;; esac
if [ -f "$src/$x.demo.rs" ]; then
  cp "$src/$x.demo.rs" tests/seed_demo_$x.rs
  cargo test --offline --test seed_demo_$x >/tmp/seed-verify-$$.with.log 2>&1; with=$?
  git checkout -q -- src
  cargo test --offline --test seed_demo_$x >/tmp/seed-verify-$$.without.log 2>&1; without=$?
else
  cargo build --offline --quiet 2>/dev/null
  bash "$src/$x.demo.sh" "$wt" >/tmp/seed-verify-$$.with.log 2>&1; with=$?
  git checkout -q -- src; cargo build --offline --quiet 2>/dev/null
  bash "$src/$x.demo.sh" "$wt" >/tmp/seed-verify-$$.without.log 2>&1; without=$?
fi
echo "demo with change: exit $with ; without: exit $without"
tail -5 /tmp/seed-verify-$$.with.log | cut -c1-200
rm -f /tmp/seed-verify-$$.*.log
if [ $with -ne 0 ] && [ $without -eq 0 ]; then echo "RESULT confirmed"; exit 0; else echo "RESULT demo-does-not-discriminate"; exit 1; fi

//! Lexeme alphabet: one lexeme for each TokenType the parser can distinguish, plus the spellings
//! it inspects. Lexemes are joined by single spaces (the newline lexeme is "\n").
pub const LEXEMES: &[&str] = &[
    // names and literals
    "x", "Zed", "Yod", "\"s\"", "1", "mysterious", "null", "true", "wrong", "empty", "the", "it",
    // operators and assignment words
    "at", "like", "plus", "minus", "-", "times", "over", "is", "isnt", "says", "put", "into", "let", "be", "with",
    "not", "x's", "x're", "and", "or", "nor", "as", "big", "bigger", "small", "smaller", "than", ">", ">=", "<", "<=",
    // control
    "if", "else", "while", "until", "continue", "break", "take", "top", "say", "shout", "listen", "to", "build",
    "knock", "up", "down", "cut", "join", "cast", "turn", "round", "rock", "roll", "takes", "taking", "return",
    "give", "back", "&", "'n'", ",", ".", "\n",
    // comments, multi-line tokens, error tokens
    "(c)", "(a\nb)", "\"a\nb\"", "a1", "_", "\"u", "(u", "€", "x€", "“x”", "İx's",
    // a keyword or pronoun glued to a suffix
    "listen's", "say're", "it's",
];

pub fn join(lexemes: &[&str]) -> String {
    let mut s = String::new();
    for (i, l) in lexemes.iter().enumerate() {
        if i > 0 {
            s.push(' ');
        }
        s.push_str(l);
    }
    s
}

/// split a program text into lexemes at single spaces, keeping "\n" as its own lexeme
pub fn split(text: &str) -> Vec<String> {
    let mut out = Vec::new();
    for (li, line) in text.split('\n').enumerate() {
        if li > 0 {
            out.push("\n".to_string());
        }
        for w in line.split(' ') {
            if !w.is_empty() {
                out.push(w.to_string());
            }
        }
    }
    out
}

pub fn unsplit(lexemes: &[String]) -> String {
    let mut s = String::new();
    let mut bol = true;
    for l in lexemes {
        if l == "\n" {
            s.push('\n');
            bol = true;
        } else {
            if !bol {
                s.push(' ');
            }
            s.push_str(l);
            bol = false;
        }
    }
    s
}

/// one or two representatives of every Unicode class a lexer could treat specially
pub const UNICODE_CLASSES: &[&str] = &[
    // white space that is not ASCII blank / tab, and look-alikes that are not white space
    "\u{a0}", "\u{2003}", "\u{2028}", "\u{85}", "\u{b}", "\u{c}", "\r", "\t", "\u{3000}", "\u{feff}", "\u{200b}",
    // digits and numerals outside ASCII (decimal, other, letter-like)
    "٣", "²", "½", "Ⅷ", "①",
    // letters whose case mappings change their UTF-8 length or their number of characters, title-case, caseless
    "İ", "ß", "ŉ", "ǰ", "ẞ", "\u{212a}", "\u{212b}", "Ω", "Ⱥ", "ﬁ", "ǅ", "中", "א", "é",
    // combining marks, joiners, symbols, astral characters
    "\u{301}", "\u{308}", "\u{200d}", "€", "😀", "\u{1f1e9}",
    // typographic apostrophes and quotes
    "’", "‘", "“", "”", "«",
    // symbols someone might add as operator or punctuation aliases
    "×", "÷", "−", "≤", "≥", "≠", "…", "—", "¿",
];

/// the Unicode classes in every lexical position, alone and in pairs
pub fn unicode_texts() -> Vec<String> {
    const TEMPLATES: &[&str] = &[ // 26 positions
       
        "x@# is 5\n", "@x#'s 5\n", "say x@#y\n", "the @# is 5\n", "X@ Y# is 5\n", "x is a@ b#c. d\n", "say \"@\"#'s 5\n", "x@'re# 5\n", "(@)# x\n",
        "say 1@2#\n", "say x@at#0\n", "x says @#\n", "say@x#\n", "x@y takes z#\nsay z#\n\n", "put@1#into x\n", "@\n#\nsay 1\n", "say 1 @(c)# 2\n", "x is@5#\n",
        "if x@\nsay 1#\n\n", "say x at@\"k#\"\n", "x says@hello#\n", "x said@#\n", "x say@#hello\n", "@#!/usr/bin/rrss", "@#!\nsay 1\n", "x is a b@#\n",
    ];
    let mut v = Vec::new();
    for t in TEMPLATES {
        for a in UNICODE_CLASSES {
            v.push(t.replace('@', a).replace('#', ""));
            v.push(t.replace('@', "").replace('#', a));
            for b in UNICODE_CLASSES {
                v.push(t.replace('@', a).replace('#', b));
            }
        }
    }
    v
}

/// tokens of every length up to 140 bytes (and around 256, 1024, 4096, 65536) whose tail is multi-byte, so
/// that some character straddles every byte offset an implementation might cut at; each in every token kind
/// an error message can quote
pub fn long_multibyte_texts() -> Vec<String> {
    let mut ks: Vec<usize> = (0..=140).collect();
    for c in [256usize, 1024, 4096, 65536] {
        ks.extend(c - 6..=c + 2);
    }
    let mut v = Vec::new();
    for k in ks {
        for tail in ["ééééé", "€€€€", "😀😀😀", "é€😀é€😀"] {
            let body = format!("{}{}", "a".repeat(k), tail);
            v.push(format!("say \"{}", body)); // unterminated string
            v.push(format!("say \"{}\" \"x\"", body)); // a string where a newline is due
            v.push(format!("({}", body)); // unterminated comment
            v.push(format!("say {}1", body)); // invalid identifier
            v.push(format!("say 1 {}", body)); // a word where a newline is due
            v.push(format!("{} {}", body, body)); // a statement that cannot start
            v.push(format!("the {}1 is 5", body));
            v.push(format!("x says {}\nsay\n", body));
            v.push(format!("x is {} {}\nsay x\nelse\n", body, body));
            v.push(format!("A{} B{} taking", body, body));
        }
    }
    v
}

/// all strings up to length n over every printable ASCII character plus tab, CR, LF
pub fn all_ascii(n: usize) -> crate::engine::space::Space<String> {
    let syms: Vec<&'static str> = (0x20u8..0x7f).map(|b| (b as char).to_string()).chain(["\n", "\t", "\r"].iter().map(|s| s.to_string())).map(|s| &*Box::leak(s.into_boxed_str())).collect();
    let leaked: &'static [&'static str] = Box::leak(syms.into_boxed_slice());
    crate::engine::space::strings(leaked, 0, n)
}

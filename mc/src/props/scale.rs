//! Threshold programs: sizes chosen around the fixed capacities and fast paths an implementation of
//! this kind has or may grow (inline vectors of 8, ring buffers that wrap, hash tables that rehash
//! at 4/8/16 entries, 16-entry power tables, 8 KiB read buffers, u8/u16 counters: 255..257 and 1024
//! elements / characters / keys / variables, 65 535..70 000 iterations / calls / elements). Each program is
//! judged by the reference interpreter like any other.
pub const SIZES: &[usize] = &[1, 2, 7, 8, 9, 10, 15, 16, 17, 31, 32, 33, 64, 65];

fn list(n: usize, f: impl Fn(usize) -> String) -> String {
    (0..n).map(f).collect::<Vec<_>>().join(", ")
}

pub fn programs() -> Vec<String> {
    let mut v = Vec::new();
    // error messages that quote an array with p positional and k keyed entries, every mix of sizes
    // around 16 (a rendering that abbreviates, pages or pre-sizes its buffer meets each case)
    for p in [0usize, 1, 3, 15, 16, 17, 40] {
        for k in [0usize, 1, 2, 15, 16, 17, 40] {
            let mut b = String::new();
            if p > 0 {
                b.push_str(&format!("rock w with {}\n", list(p, |i| (i + 1).to_string())));
            }
            if k > 0 {
                b.push_str(&format!("put 0 into c\nwhile c is less than {}\nput \"a: \" plus c into kk\nlet w at kk be c\nbuild c up\n\n", k));
            }
            if p + k == 0 {
                b.push_str("rock w\n");
            }
            for e in ["say w at w\n", "say w is less than \"s\"\n", "w taking 1\n"] {
                v.push(format!("{}say 1\n{}say 2\n", b, e));
            }
        }
    }
    for &n in SIZES {
        // rock with n values, then read every element and one past the end
        let mut p = format!("rock w with {}\nsay w\n", list(n, |i| (i + 1).to_string()));
        for i in [0, n / 2, n - 1, n] {
            p.push_str(&format!("say w at {}\n", i));
        }
        v.push(p);
        // a call with n arguments (left-to-right evaluation observable through a queue)
        let params = list(n, |i| format!("k{}", (b'a' + (i % 26) as u8) as char).repeat(1 + i / 26));
        let sum = (0..n).map(|i| format!("k{}", (b'a' + (i % 26) as u8) as char).repeat(1 + i / 26)).collect::<Vec<_>>().join(" plus ");
        v.push(format!("many takes {}\ngive back {}\n\nsay many taking {}\n", params, sum, list(n, |i| (i + 1).to_string())));
        v.push(format!(
            "many takes {}\ngive back {}\n\nrock q with {}\nsay many taking {}\nsay q\n",
            params,
            sum,
            list(n + 1, |i| (i + 1).to_string()),
            list(n, |_| "roll q".to_string())
        ));
        // nested subscripts of depth n: write, read back, length of every level's parent
        let path: String = (0..n).map(|i| format!(" at {}", i % 3)).collect();
        v.push(format!("let w{} be 5\nsay w{}\nsay w\nsay w at 0\n", path, path));
        // queue churn: the ring buffer wraps around
        let mut p = String::from("rock q with 0\n");
        for round in 0..3 {
            p.push_str(&format!("rock q with {}\n", list(n, |i| (100 * round + i).to_string())));
            for _ in 0..(n.min(40) / 2 + 1) {
                p.push_str("say roll q\n");
            }
        }
        p.push_str("say q\nsay q at 0\nput q into z\nsay roll z\nsay q at 0\njoin z into y with \"-\"\n");
        v.push(p);
        // a dictionary with n keys: every key readable, the sequence part unaffected
        let mut p = String::new();
        for i in 0..n {
            p.push_str(&format!("let w at \"key{}\" be {}\n", i, i));
        }
        p.push_str("rock w with 7\nsay w\nsay w at \"key0\"\n");
        p.push_str(&format!("say w at \"key{}\"\nsay w at \"key{}\"\nsay w at 0\nput w into z\nlet z at \"key0\" be 99\nsay w at \"key0\"\nsay z at \"key0\"\n", n - 1, n));
        v.push(p);
        // strings of n characters (multi-byte in the middle): index, split, repeat, compare
        let s: String = (0..n).map(|i| ["a", "b", "é", "😀"][i % 4]).collect();
        v.push(format!(
            "put \"{}\" into x\nsay x at 0\nsay x at {}\nsay x at {}\ncut x into y\nsay y\nsay y at {}\njoin y into z\nsay z is x\nsay x times 2 is z plus x\n",
            s,
            n - 1,
            n,
            n / 2
        ));
        // n statements in one block, a break in the middle of a long loop body
        let body: String = (0..n).map(|i| format!("say {}\n", i)).collect();
        v.push(format!("put 0 into c\nwhile c is less than 2\nbuild c up\n{}if c is 2\nbreak\n\n{}\nsay 999\n", body, body));
        // n-fold unary nesting and operator chains
        v.push(format!("say {}true\nsay {}1\nsay 1{}\nsay 2{}\n", "not ".repeat(n), "- ".repeat(n), " plus 1".repeat(n), " times 2".repeat(n)));
        // build / knock by n
        v.push(format!("put 0 into x\nbuild x {}\nsay x\nknock x {}\nsay x\nput true into b\nbuild b {}\nsay b\n", vec!["up"; n].join(", "), vec!["down"; n].join(" "), vec!["up"; n].join(" ")));
    }
    // sizes beyond one and two bytes: elements, characters, keys, variables, iterations, calls
    for n in [255usize, 256, 257, 1024] {
        v.push(format!("rock w with {}\nsay w\nsay w at 0\nsay w at {}\nsay w at {}\nsay w at {}\nput 0 into t\nwhile w\nlet t be with roll w\n\nsay t\nsay w\n", list(n, |i| (i + 1).to_string()), n - 1, n, n / 2));
        let s: String = (0..n).map(|i| ["a", "b", "é", "😀"][i % 4]).collect();
        v.push(format!("put \"{}\" into x\nsay x at 0\nsay x at {}\nsay x at {}\ncut x into y\nsay y\nsay y at {}\njoin y into z\nsay z is x\n", s, n - 1, n, n - 1));
        let mut p = String::new();
        for i in 0..n {
            p.push_str(&format!("let w at \"key{}\" be {}\n", i, i));
        }
        p.push_str(&format!("say w\nsay w at \"key0\"\nsay w at \"key{}\"\nsay w at \"key{}\"\n", n - 1, n));
        v.push(p);
        let mut p = String::new();
        for i in 0..n {
            p.push_str(&format!("put {} into va{}\n", i, (0..3).map(|k| (b'a' + ((i / 26usize.pow(k)) % 26) as u8) as char).collect::<String>()));
        }
        p.push_str("say vaaaa\nsay vabaa\nsay vazaa\n");
        v.push(p);
        v.push(format!("put 0 into x\nbuild x {}\nsay x\n", vec!["up"; n].join(", ")));
    }
    for n in [255usize, 256, 257, 65535, 65536, 65537, 70000] {
        v.push(format!("put 0 into c\nwhile c is less than {}\nbuild c up\n\nsay c\n", n));
        v.push(format!("put 0 into c\nput 0 into t\nuntil c is {}\nbuild c up\nif c is {}\nlet t be with 1\n\n\nsay c\nsay t\n", n, n));
        v.push(format!("inc takes k\ngive back k plus 1\n\nput 0 into c\nwhile c is less than {}\nput inc taking c into c\n\nsay c\n", n));
        v.push(format!("rock w\nput 0 into c\nwhile c is less than {}\nbuild c up\nrock w with c\n\nsay w\nsay w at 0\nsay w at {}\nroll w\nsay w\n", n, n - 1));
    }
    // a queue with keys, filled beyond n elements and drained completely: the keys stay
    for n in [8usize, 16, 64, 65, 66, 100, 300] {
        v.push(format!("let q at \"k\" be 7\nlet q at true be 8\nrock q with {}\nput q into p\nput 0 into c\nwhile c is less than {}\nbuild c up\nroll q\n\nsay q at \"k\"\nsay q at true\nsay q\nrock q with 1\nsay q at \"k\"\nsay q at 0\nsay p at \"k\"\nsay p\nroll p\nsay p at \"k\"\n", list(n, |i| (i + 1).to_string()), n));
    }
    // empty then-blocks executed n times in one activation; fresh arrays created in every iteration
    for n in [3usize, 255, 256, 257, 300, 1024] {
        v.push(format!("put 0 into c\nput 0 into t\nwhile c is less than {}\nbuild c up\nif c\nelse\nsay 0\n\nif c is 0\nelse\nbuild t up\n\n\nsay c\nsay t\n", n));
        v.push(format!("fun takes k\nput 0 into c\nuntil c is k\nbuild c up\nif c\nelse\ngive back 0\n\n\ngive back c\n\nsay fun taking {}\nsay fun taking {}\n", n, n));
        v.push(format!("put 0 into c\nput 0 into t\nwhile c is less than {}\nbuild c up\nrock w with c\nlet v at c be c\nlet t be with w plus v at c\n\nsay t\n", n));
    }
    v.push("put 0 into c\nwhile c is less than 3\nbuild c up\nrock w with c\nsay w\nsay w at 0\nlet v at \"k\" be c\nlet v at c be c\nsay v\nsay v at 1\nput w into u\nrock u with 9\nsay u\n\n".to_string());
    v.push("put 0 into c\nuntil c is 3\nbuild c up\nif c is 2\nrock w with 7\n\nrock w with c\nsay w\n\n".to_string());
    v.push("put \"ab\" into x\nput 0 into c\nwhile c is less than 15\nbuild c up\nlet x be with x\n\nsay x at 65535\nsay x at 65536\nsay x at 65537\ncut x into y\nsay y\n".to_string());
    // numbers around printing and table thresholds
    for lit in ["1e15", "1e16", "1e17", "1e21", "1e22", "123456789012345678", "9007199254740993", "4294967296", "2147483648", "65536", "256", "0.1", "0.000001", "0.0000001", "1e300"] {
        v.push(format!("put {} into x\nsay x\nsay x plus 1\nsay x times x\nsay 1 over x\nsay x is x plus 1\nsay -x\nput \"\" plus x into y\nsay y\n", lit));
    }
    v.push("put 1 over 3 into x\nsay x\nsay x times 3\nput 0.1 plus 0.2 into y\nsay y\nsay y is 0.3\nput 1 over 1e308 over 1e15 into z\nsay z is 0\nsay not z\nif z\nsay 1\n\nput 1 over 1e16 into u\nsay not u\nsay u is 0\n".to_string());
    // recursion depth
    for d in [10usize, 50, 100] {
        v.push(format!("dive takes k\nif k is 0\ngive back 0\n\nput k minus 1 into j\ngive back 1 plus dive taking j\n\nsay dive taking {}\n", d));
    }
    // nested blocks executed
    for d in [8usize, 9, 33, 100] {
        let mut p = String::from("put 1 into x\n");
        for _ in 0..d {
            p.push_str("if x\n");
        }
        p.push_str("say 5\n");
        p.push_str(&"\n".repeat(d));
        p.push_str("say 6\n");
        v.push(p);
    }
    v
}

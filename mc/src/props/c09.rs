//! C09 — running any parseable program never crashes the interpreter.
use super::judge::{judge, JudgeOpts, Judged};
use crate::engine::space::Space;
use crate::engine::*;
use serde_json::{json, Value};

pub const DEF: PropDef = PropDef {
    id: "C09",
    level: "exploration",
    rule: "complete enumeration of (1) the ill-typed alphabet: every statement template (all statement forms, 1..3 slots) x every filler (a name bound to each value kind incl. NaN, 1e30, empty/non-empty/dictionary arrays, a function name, a never-assigned name, a pronoun with/without referent, literals) in every slot; (2) all sequences <=3 (thorough <=5) of stray-control items (break, continue, return at top level, blank lines, loops, calls of functions whose body is break/continue/return/empty); (3) all sequences <=3 (thorough <=5) of degenerate poetic-literal atoms after seven assignment/rock heads, and poetic literals of 8..330 words; programs the parser rejects are counted and dropped; programs whose reference run exceeds the step/size budget are not executed; all others are executed in both builds: no panic, abort, signal or hang, a renderable error, identical observable result, and the reference outcome where the reference defines one; non-trivial = accepted by the parser and executed; distinct = distinct program text",
    assumptions: &[
        "the checked build asserts every unchecked-unsafe precondition (debug_assert, unchecked_unwrap, overflow checks); aborts/segfaults of a worker are attributed to the case in flight by re-running its chunk in announce mode",
        "resource bound: reference step budget 20k, array/string sizes 1e5; programs beyond it are outside 'modest resources'",
    ],
    build,
    exhaustive: true,
};

pub const PRELUDE: &str = "put mysterious into vm\nput null into vn\nput true into vb\nput 0 into vz\nput 1.5 into vf\nput -1 into vg\nput 1e30 into vh\nput 0 over 0 into vx\nput \"\" into se\nput \"abc\" into sa\nput \"12\" into sn\nput 55296 into vs\nput \"a😀😀😀😀😀😀😀😀😀😀😀😀😀😀😀😀😀😀😀😀😀😀😀😀😀😀😀😀😀😀😀😀😀😀😀😀😀😀😀😀😀😀😀😀😀😀😀😀😀😀😀😀😀😀😀😀😀😀😀😀😀😀😀😀😀😀😀😀😀😀\" into sl\nrock ae\nrock ar with 1, \"s\"\nfun takes k\ngive back k\n\nGun takes k\ngive back k\n\nlet ad at \"k\" be 1\nlet dv at \"k\" be \"v\"\nlet dv at \"j\" be \"w\"\nrock mx with \"s\"\nlet mx at \"k\" be \"v\"\nrock nn with ar, ae\nrock ll with \"a\", \"b\", \"c\", \"d\", \"e\", \"f\", \"g\", \"h\", \"i\", \"j\", \"k\", \"l\", \"m\", \"n\", \"o\", \"p\", \"q\"\n";
/// input shapes: ordinary lines, blank lines first, empty, no final newline, CR LF, non-ASCII, a blank line only
pub const INPUTS: &[&[u8]] = &[b"line one\nline two\n", b"\n\nx\n", b"", b"no newline", b"\r\n\r\n", "é😀\n12\n".as_bytes(), b"\n"];
pub const NO_REFERENT: &str = "if vb\nsay 0\n\n";

pub const FILLERS: &[&str] = &["vm", "vn", "vb", "vz", "vf", "vg", "vh", "vx", "se", "sa", "sn", "ae", "ar", "ad", "fun", "nev", "it", "5", "16", "\"lit\"", "mysterious", "fun taking ar", "roll ar", "ar at 0", "ar at 1e30", "ad at vh", "Qux Zed", "Gun", "gun", "vs", "sl", "dv", "mx", "nn", "ll"];

pub const TEMPLATES: &[&str] = &[
    "put A into B\n",
    "let A be B\n",
    "let A be with B\n",
    "let A be minus B\n",
    "let A be times B\n",
    "let A be over B\n",
    "let A be B, C\n",
    "let A at B be C\n",
    "put A at B into C\n",
    "let A at B at C be 1\n",
    "A is B\n",
    "A says B\n",
    "say A\n",
    "say A at B\n",
    "say A at B at C\n",
    "say A plus B\n",
    "say A minus B\n",
    "say A times B\n",
    "say A over B\n",
    "say A and B\n",
    "say A or B\n",
    "say A nor B\n",
    "say A is B\n",
    "say A isnt B\n",
    "say A is greater than B\n",
    "say A is as great as B\n",
    "say A is less than B\n",
    "say A is as small as B\n",
    "say A plus B, C\n",
    "say A times B, C\n",
    "say not A\n",
    "say -A\n",
    "build A up\n",
    "knock A down, down\n",
    "listen to A\n",
    "listen to A at B\n",
    "cut A\n",
    "cut A with B\n",
    "cut A into B\n",
    "cut A into B with C\n",
    "join A\n",
    "join A with B\n",
    "join A into B\n",
    "join A into B with C\n",
    "cast A\n",
    "cast A with B\n",
    "cast A into B\n",
    "cast A into B with C\n",
    "turn up A\n",
    "turn A down\n",
    "turn round A\n",
    "rock A\n",
    "rock A with B\n",
    "rock A with B, C\n",
    "rock A like a rolling stone\n",
    "rock A at B with C\n",
    "roll A\n",
    "roll A into B\n",
    "say roll A\n",
    "roll A at B\n",
    "if A\nsay 1\n\n",
    "while A\nbreak\n\n",
    "until A\nbreak\n\n",
    "A taking B\n",
    "say A taking B\n",
    "say A taking B, C\n",
    "A takes B\nsay 1\n\n",
    "A takes B, C\nsay 1\n\nA taking 1, 2\n",
    "A takes B\ngive back B\n\nsay A taking C\n",
];

pub const STRAY: &[&str] = &[
    "break\n",
    "continue\n",
    "give back 1\n",
    "say 1\n",
    "\n",
    "while vb\nbreak\n\n",
    "while vb\nsay 2\nput false into vb\ncontinue\n\n",
    "if vb\nbreak\n\n",
    "if vb\ngive back 2\n\n",
    "fb takes k\nbreak\n\nfb taking 1\n",
    "fc takes k\ncontinue\n\nsay fc taking 1\n",
    "fr takes k\ngive back k\ngive back 2\n\nsay fr taking 1\n",
    "fe takes k\n\nsay fe taking 1\n",
    "fl takes k\nwhile k\ngive back 3\n\n\nsay fl taking 1\n",
    "take it to the top\n",
    "break it down\n",
];

pub const POETIC_HEADS: &[&str] = &["x is ", "x is's ", "rock x like ", "rock x like's ", "x is (c)'s ", "x's ", "let x be 1\nit's "];
pub const POETIC_ATOMS: &[&str] = &["aa", "bb's", ".", ",", "-cc", "-", "(c)'s", "12", "12's", "is", "\"s\"'s", "dd're", "ee's's", "'s"];

/// simultaneous substitution of the slot letters
pub fn fill(t: &str, a: &str, b: &str, c: &str) -> String {
    let mut s = String::new();
    for ch in t.chars() {
        match ch {
            'A' => s.push_str(a),
            'B' => s.push_str(b),
            'C' => s.push_str(c),
            x => s.push(x),
        }
    }
    s
}

/// poetic literals with many words (evaluation walks powers of ten far beyond any table)
fn long_poetic() -> Space<String> {
    let mut v = Vec::new();
    for n in [8usize, 15, 16, 17, 18, 19, 22, 23, 24, 25, 40, 100, 300, 330] {
        for w in ["a", "abcdefghi", "abcdefghij"] {
            let words = vec![w; n].join(" ");
            v.push(format!("x is {}\nsay x\n", words));
            v.push(format!("x is {} . {}\nsay x\n", words, words));
            v.push(format!("rock x like {}\nsay x at 0\n", words));
        }
    }
    Space::of(v)
}

pub struct C09 {
    fams: Vec<(String, Space<String>)>,
}

fn build(tier: Tier) -> Box<dyn Check> {
    let f: Space<&'static str> = Space::of(FILLERS.to_vec());
    let mut parts: Vec<Space<String>> = Vec::new();
    for t in TEMPLATES {
        let slots = ["A", "B", "C"].iter().filter(|s| t.contains(**s)).count();
        let t: &'static str = t;
        let sp: Space<String> = match slots {
            1 => f.map(move |a| fill(t, a, "", "")),
            2 => f.product(&f, move |a, b| fill(t, a, b, "")),
            _ => f.product(&f, |a, b| (a, b)).product(&f, move |(a, b), c| fill(t, a, b, c)),
        };
        parts.push(sp);
    }
    let templated = Space::union(parts);
    let with_ref = templated.map(|s| format!("{}{}say vz\n", PRELUDE, s));
    // pronoun without referent: only the cases that use the pronoun
    let no_ref = templated.map(|s| format!("{}{}{}say vz\n", PRELUDE, NO_REFERENT, s));
    let s: Space<&'static str> = Space::of(STRAY.to_vec());
    let stray = s.seq_range(1, tier.pick(3, 5)).map(|v| format!("put true into vb\n{}say 9\n", v.concat()));
    let heads: Space<&'static str> = Space::of(POETIC_HEADS.to_vec());
    let atoms: Space<&'static str> = Space::of(POETIC_ATOMS.to_vec());
    let poetic = heads.product(&atoms.seq_range(0, tier.pick(3, 5)), |h, v| format!("{}{}\nsay x\nsay x at 0\n", h, v.join(" ")));
    Box::new(C09 {
        fams: vec![
            ("ill-typed".into(), with_ref),
            ("ill-typed-no-referent".into(), no_ref),
            ("stray-control".into(), stray),
            ("degenerate-poetic".into(), poetic),
            ("long-poetic".into(), long_poetic()),
            ("thresholds".into(), Space::of(super::scale::programs())),
        ],
    })
}

impl Check for C09 {
    fn families(&self) -> Vec<(String, u64)> {
        self.fams.iter().map(|(n, s)| (n.clone(), s.len())).collect()
    }
    fn describe(&self, fam: usize, idx: u64) -> Value {
        json!({ "text": self.fams[fam].1.get(idx) })
    }
    fn run_case(&self, fam: usize, idx: u64, ctx: &mut Ctx) {
        let text = self.fams[fam].1.get(idx);
        ctx.case_text(&text);
        if fam == 1 && !text[PRELUDE.len()..].contains("it") {
            // identical in effect to the with-referent family
            ctx.count("skipped.no-pronoun-in-no-referent-family");
            return;
        }
        if rrss::frontend::parser::parse(&text).is_err() {
            ctx.count("rejected_by_parser");
            ctx.observe_str("rejected");
            return;
        }
        // Resource guard for programs the reference does not follow to the end: a string repetition
        // by 1e30 after an unspecified cell would never return. Such programs are not executed.
        let body = &text[text.find("let ad at").unwrap_or(0)..];
        let risky = (body.contains(" times ") || body.contains(" of ")) && (body.contains("vh") || body.contains("1e30"));
        if risky {
            if let Ok(p) = rrss::frontend::parser::parse(&text) {
                use crate::refmodel::{interp, rast};
                let o = interp::run_reference(&rast::program(&p), b"", interp::Limits::default());
                if let interp::End::Unspec(_) = o.end {
                    ctx.count("skipped.unspecified cell followed by a possibly unbounded repetition");
                    ctx.observe_str("skipped-risky");
                    return;
                }
            }
        }
        ctx.nontrivial();
        // programs that read input run on every input shape, the others on the first only
        let inputs: &[&[u8]] = if text.contains("listen") { INPUTS } else { &INPUTS[..1] };
        for input in inputs {
            let (j, o) = judge(&text, input, &JudgeOpts { run_unspecified: true, limits: crate::refmodel::interp::Limits { steps: if fam >= 4 { 3_000_000 } else { 20_000 }, depth: if fam >= 4 { 150 } else { 24 } } }, ctx);
            match j {
                Judged::Agree => ctx.count("compared_with_reference"),
                Judged::Skipped => ctx.count("crash_freedom_only"),
                Judged::Violation => {}
            }
            let _ = o;
        }
    }
    fn static_coverage(&self) -> Value {
        json!({"fillers": FILLERS, "templates": TEMPLATES.len(), "stray_items": STRAY, "poetic_heads": POETIC_HEADS, "poetic_atoms": POETIC_ATOMS})
    }
}

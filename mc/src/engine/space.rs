//! Finite, randomly accessible enumeration spaces: `len()` cases, `get(i)` is a pure function of i.
//! All enumerations of the framework are built from these combinators, so that a case is
//! addressed by (family, index) and a run is a complete sweep of 0..len.
use std::rc::Rc;

pub struct Space<T> {
    len: u64,
    get: Rc<dyn Fn(u64) -> T>,
}

impl<T> Clone for Space<T> {
    fn clone(&self) -> Self {
        Space { len: self.len, get: self.get.clone() }
    }
}

impl<T: Clone + 'static> Space<T> {
    pub fn len(&self) -> u64 {
        self.len
    }
    pub fn get(&self, i: u64) -> T {
        assert!(i < self.len, "space index {} out of range {}", i, self.len);
        (self.get)(i)
    }
    pub fn new(len: u64, f: impl Fn(u64) -> T + 'static) -> Self {
        Space { len, get: Rc::new(f) }
    }
    pub fn empty() -> Self {
        Space::new(0, |_| unreachable!())
    }
    pub fn one(x: T) -> Self {
        Space::new(1, move |_| x.clone())
    }
    pub fn of(items: Vec<T>) -> Self {
        let n = items.len() as u64;
        let items = Rc::new(items);
        Space::new(n, move |i| items[i as usize].clone())
    }
    pub fn union(parts: Vec<Space<T>>) -> Self {
        let parts: Vec<Space<T>> = parts.into_iter().filter(|p| p.len > 0).collect();
        let mut offs = Vec::with_capacity(parts.len());
        let mut total = 0u64;
        for p in &parts {
            offs.push(total);
            total = total.checked_add(p.len).expect("space overflow");
        }
        Space::new(total, move |i| {
            // binary search the part
            let k = match offs.binary_search(&i) {
                Ok(k) => k,
                Err(k) => k - 1,
            };
            parts[k].get(i - offs[k])
        })
    }
    pub fn map<U: Clone + 'static>(&self, f: impl Fn(T) -> U + 'static) -> Space<U> {
        let s = self.clone();
        Space::new(self.len, move |i| f(s.get(i)))
    }
    /// cartesian product, first component varies slowest
    pub fn product<B: Clone + 'static, U: Clone + 'static>(
        &self,
        b: &Space<B>,
        f: impl Fn(T, B) -> U + 'static,
    ) -> Space<U> {
        let a = self.clone();
        let b = b.clone();
        let bl = b.len;
        let total = a.len.checked_mul(bl).expect("space overflow");
        Space::new(total, move |i| f(a.get(i / bl), b.get(i % bl)))
    }
    /// all sequences of exactly n elements
    pub fn seq_exact(&self, n: usize) -> Space<Vec<T>> {
        let mut acc: Space<Vec<T>> = Space::one(Vec::new());
        for _ in 0..n {
            acc = acc.product(self, |mut v, x| {
                v.push(x);
                v
            });
        }
        acc
    }
    /// all sequences of lo..=hi elements, shortest first
    pub fn seq_range(&self, lo: usize, hi: usize) -> Space<Vec<T>> {
        Space::union((lo..=hi).map(|n| self.seq_exact(n)).collect())
    }
    pub fn filter_collect(&self, pred: impl Fn(&T) -> bool) -> Space<T> {
        let mut v = Vec::new();
        for i in 0..self.len {
            let x = self.get(i);
            if pred(&x) {
                v.push(x);
            }
        }
        Space::of(v)
    }
    pub fn iter(&self) -> impl Iterator<Item = T> + '_ {
        (0..self.len).map(move |i| self.get(i))
    }
}

/// all strings of length lo..=hi over an alphabet of string symbols (shortest first)
pub fn strings(alphabet: &[&str], lo: usize, hi: usize) -> Space<String> {
    let syms: Vec<String> = alphabet.iter().map(|s| s.to_string()).collect();
    let k = syms.len() as u64;
    let mut offs = Vec::new();
    let mut total = 0u64;
    for n in lo..=hi {
        offs.push((total, n));
        total = total.checked_add(k.checked_pow(n as u32).expect("overflow")).expect("overflow");
    }
    Space::new(total, move |i| {
        let p = match offs.binary_search_by(|(o, _)| o.cmp(&i)) {
            Ok(p) => p,
            Err(p) => p - 1,
        };
        let (o, n) = offs[p];
        let mut r = i - o;
        let mut parts = vec![0usize; n];
        for j in (0..n).rev() {
            parts[j] = (r % k) as usize;
            r /= k;
        }
        let mut s = String::new();
        for d in parts {
            s.push_str(&syms[d]);
        }
        s
    })
}

//! Shared oracle step for the execution properties: parse the text with rrss, convert its tree to
//! RAst, run the reference interpreter on *that* tree, run rrss on its own tree, compare.
use crate::engine::Ctx;
use crate::refmodel::interp::{match_output, run_reference, End, Limits, Outcome};
use crate::refmodel::rast;
use crate::subject;
use rrss::frontend::parser::parse;

#[derive(Clone, Copy, Debug, PartialEq)]
pub enum Judged {
    /// compared and equal
    Agree,
    /// not judged (reason counted)
    Skipped,
    /// violation already recorded in ctx
    Violation,
}

pub struct JudgeOpts {
    /// execute the subject even when the reference says "unspecified" (crash-freedom only)
    pub run_unspecified: bool,
    pub limits: Limits,
}

impl Default for JudgeOpts {
    fn default() -> Self {
        JudgeOpts { run_unspecified: false, limits: Limits::default() }
    }
}

pub fn end_name(e: &End) -> &'static str {
    match e {
        End::Ok => "ok",
        End::Error(_) => "error",
        End::Unspec(_) => "unspecified",
        End::Budget(_) => "budget",
    }
}

/// Returns the reference outcome as well, for checks that want to look at it.
pub fn judge(text: &str, input: &[u8], opts: &JudgeOpts, ctx: &mut Ctx) -> (Judged, Option<Outcome>) {
    let prog = match parse(text) {
        Ok(p) => p,
        Err(e) => {
            ctx.observe_str("parse-error");
            ctx.violation(
                "unexpected-parse-error",
                format!("a generated program that should be valid was rejected: {} — program: {:?}", e, text),
            );
            return (Judged::Violation, None);
        }
    };
    let r = rast::program(&prog);
    let expected = run_reference(&r, input, opts.limits);
    match &expected.end {
        End::Budget(reason) => {
            ctx.count(&format!("skipped.budget: {}", reason));
            ctx.observe_str("skipped-budget");
            return (Judged::Skipped, Some(expected));
        }
        End::Unspec(reason) => {
            ctx.count(&format!("skipped.{}", reason));
            if !opts.run_unspecified {
                ctx.observe_str("skipped-unspecified");
                return (Judged::Skipped, Some(expected));
            }
        }
        _ => {}
    }
    let (stdout, result) = subject::exec_program(&prog, input);
    ctx.observe(&stdout);
    match &result {
        Ok(()) => ctx.observe_str("ok"),
        Err(m) => {
            ctx.observe_str("error");
            ctx.observe_str(m);
        }
    }
    if let End::Unspec(_) = expected.end {
        return (Judged::Skipped, Some(expected));
    }
    ctx.count(&format!("outcome.{}", end_name(&expected.end)));
    let mut bad = None;
    match (&expected.end, &result) {
        (End::Ok, Err(m)) => bad = Some(format!("expected the program to succeed, rrss reported the runtime error {:?}", m)),
        (End::Error(why), Ok(())) => bad = Some(format!("expected a runtime error ({}), rrss ran to completion", why)),
        _ => {}
    }
    if bad.is_none() {
        if let Err(m) = match_output(&expected.out, &stdout) {
            bad = Some(m);
        }
    }
    if let (None, Err(m)) = (&bad, &result) {
        if m.trim().is_empty() {
            bad = Some("runtime error renders as an empty message".to_string());
        }
    }
    match bad {
        None => (Judged::Agree, Some(expected)),
        Some(m) => {
            ctx.violation(
                "wrong-result",
                format!("{} — program {:?} input {:?} — rrss printed {:?}, result {:?}", m, text, String::from_utf8_lossy(input), String::from_utf8_lossy(&stdout), result),
            );
            (Judged::Violation, Some(expected))
        }
    }
}

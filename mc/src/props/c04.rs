//! C04 — control flow follows the program text: branches, loops, break/continue.
use super::judge::{judge, JudgeOpts, Judged};
use crate::engine::space::Space;
use crate::engine::*;
use serde_json::{json, Value};
use std::rc::Rc;

pub const DEF: PropDef = PropDef {
    id: "C04",
    level: "exploration",
    rule: "complete enumeration of all control skeletons (blocks of 1..3 statements; say <marker> | if C [else] | while G | until G | break | continue; nesting <= 3; break/continue only inside loops) up to the node bound with the core alphabet (C in {true,false}, one self-exhausting guard `roll q` over a two-item queue), plus every single deviation to the rich alphabet (conditions of every value kind, other guards, long spellings, an erroring statement, empty then-block, unterminated last block) on every program of <= 5 (thorough 7) nodes; plus 17 bare literals as while / until guard (body left by break, by a counted break, by return) and as if condition; plus 11 conditions that print, consume or fail when evaluated x 18 shapes (empty then / else / loop bodies closed by end of input or else, at top level, in a loop, in a function; loops left by break from depth 1 and 3, by continue-then-break, by return; nested loops); the marker trace and outcome are compared with the reference interpreter run on the parsed tree; non-trivial = contains at least one if or loop and was judged; distinct = distinct program text",
    assumptions: &["reference interpreter (refmodel/interp.rs) written from the property text", "programs larger than the node bound, and several simultaneous rich deviations, are not covered"],
    build,
    exhaustive: true,
};

#[derive(Clone, Debug)]
pub enum Sk {
    Say,
    If(bool, Vec<Sk>, Option<Vec<Sk>>),
    Loop(bool, Vec<Sk>), // until?
    Break,
    Continue,
}

fn stmt_space(n: usize, d: usize, inloop: bool, memo: &mut std::collections::HashMap<(usize, usize, bool, bool), Space<Vec<Sk>>>) -> Space<Sk> {
    // statements with exactly n nodes and nesting depth <= d
    if n == 0 {
        return Space::empty();
    }
    let mut parts: Vec<Space<Sk>> = Vec::new();
    if n == 1 {
        let mut leaves = vec![Sk::Say];
        if inloop {
            leaves.push(Sk::Break);
            leaves.push(Sk::Continue);
        }
        parts.push(Space::of(leaves));
    }
    if d > 0 && n >= 2 {
        // if without else
        let b = block_space(n - 1, d - 1, inloop, memo);
        for c in [true, false] {
            parts.push(b.map(move |blk| Sk::If(c, blk, None)));
        }
        // if with else
        for k in 1..(n - 1) {
            let t = block_space(k, d - 1, inloop, memo);
            let e = block_space(n - 1 - k, d - 1, inloop, memo);
            if t.len() == 0 || e.len() == 0 {
                continue;
            }
            for c in [true, false] {
                parts.push(t.product(&e, move |a, b| Sk::If(c, a, Some(b))));
            }
        }
        let lb = block_space(n - 1, d - 1, true, memo);
        for u in [false, true] {
            parts.push(lb.map(move |blk| Sk::Loop(u, blk)));
        }
    }
    Space::union(parts)
}

fn block_space(n: usize, d: usize, inloop: bool, memo: &mut std::collections::HashMap<(usize, usize, bool, bool), Space<Vec<Sk>>>) -> Space<Vec<Sk>> {
    if let Some(s) = memo.get(&(n, d, inloop, false)) {
        return s.clone();
    }
    // 1..3 statements with n nodes in total
    let mut parts: Vec<Space<Vec<Sk>>> = Vec::new();
    parts.push(stmt_space(n, d, inloop, memo).map(|s| vec![s]));
    for a in 1..n {
        let sa = stmt_space(a, d, inloop, memo);
        if sa.len() == 0 {
            continue;
        }
        let sb = stmt_space(n - a, d, inloop, memo);
        if sb.len() > 0 {
            parts.push(sa.product(&sb, |x, y| vec![x, y]));
        }
        for b in 1..(n - a) {
            let sb = stmt_space(b, d, inloop, memo);
            let sc = stmt_space(n - a - b, d, inloop, memo);
            if sb.len() == 0 || sc.len() == 0 {
                continue;
            }
            parts.push(sa.product(&sb, |x, y| (x, y)).product(&sc, |(x, y), z| vec![x, y, z]));
        }
    }
    let s = Space::union(parts);
    memo.insert((n, d, inloop, false), s.clone());
    s
}

pub fn programs_up_to(n: usize) -> Space<Vec<Sk>> {
    let mut memo = std::collections::HashMap::new();
    Space::union((1..=n).map(|k| block_space(k, 3, false, &mut memo)).collect())
}

/// a single deviation: (pre-order node number, alternative number)
pub type Dev = Option<(usize, usize)>;

pub const COND_ALTS: &[&str] = &["1", "-1", "\"\"", "\"0\"", "\"a\"", "0 over 0", "ea", "ne", "0", "null", "mysterious", "0 times -1", "tv", "not tv"];
pub const LOOP_ALTS: usize = 6 + GUARD_KINDS.len();
/// loop guards of every value kind: the guard variable gv is overwritten by the first statement of the body, so the loop runs at most once
pub const GUARD_KINDS: &[&str] = &["ea", "ne", "\"\"", "\"a\"", "1", "0", "mysterious", "null", "0 over 0", "\"0\"", "true", "false"];

pub fn alternatives(s: &Sk) -> usize {
    match s {
        Sk::Say => 3,
        Sk::If(_, _, e) => COND_ALTS.len() + if e.is_some() { 1 } else { 0 },
        Sk::Loop(..) => LOOP_ALTS,
        Sk::Break | Sk::Continue => 1,
    }
}

fn count_devs(b: &[Sk]) -> usize {
    b.iter()
        .map(|s| {
            alternatives(s)
                + match s {
                    Sk::If(_, t, e) => count_devs(t) + e.as_ref().map_or(0, |e| count_devs(e)),
                    Sk::Loop(_, b) => count_devs(b),
                    _ => 0,
                }
        })
        .sum()
}

/// map the k-th deviation of a program to (node, alt)
fn nth_dev(b: &[Sk], mut k: usize) -> (usize, usize) {
    fn walk(b: &[Sk], node: &mut usize, k: &mut usize) -> Option<(usize, usize)> {
        for s in b {
            let me = *node;
            *node += 1;
            let a = alternatives(s);
            if *k < a {
                return Some((me, *k));
            }
            *k -= a;
            match s {
                Sk::If(_, t, e) => {
                    if let Some(r) = walk(t, node, k) {
                        return Some(r);
                    }
                    if let Some(e) = e {
                        if let Some(r) = walk(e, node, k) {
                            return Some(r);
                        }
                    }
                }
                Sk::Loop(_, body) => {
                    if let Some(r) = walk(body, node, k) {
                        return Some(r);
                    }
                }
                _ => {}
            }
        }
        None
    }
    let mut node = 0;
    walk(b, &mut node, &mut k).expect("deviation index in range")
}

pub fn render(prog: &[Sk], dev: Dev, close_last: bool) -> String {
    let mut out = String::from("rock q with 1, 1\nrock p with 1, 1, 1\nrock ea\nrock ne with 0\nput true into tv\nput 0 into cn\nboom takes k\nsay - true\n\n");
    let mut node = 0usize;
    let mut marker = 0usize;
    fn block(b: &[Sk], out: &mut String, node: &mut usize, marker: &mut usize, dev: Dev) {
        for s in b {
            let me = *node;
            *node += 1;
            let alt = match dev {
                Some((n, a)) if n == me => Some(a),
                _ => None,
            };
            match s {
                Sk::Say => {
                    *marker += 1;
                    if let Some(a) = alt {
                        // an erroring statement: directly, through a call statement, through a call in an expression
                        out.push_str(["say - true\n", "boom taking 1\n", "say boom taking 1\n"][a]);
                    } else {
                        out.push_str(&format!("say {}\n", marker));
                    }
                }
                Sk::Break => out.push_str(if alt.is_some() { "break it down\n" } else { "break\n" }),
                Sk::Continue => out.push_str(if alt.is_some() { "take it to the top\n" } else { "continue\n" }),
                Sk::If(c, t, e) => {
                    let cond = match alt {
                        Some(a) if a < COND_ALTS.len() => COND_ALTS[a].to_string(),
                        _ => (if *c { "true" } else { "false" }).to_string(),
                    };
                    out.push_str(&format!("if {}\n", cond));
                    let empty_then = matches!(alt, Some(a) if a == COND_ALTS.len());
                    if empty_then {
                        // skip the then-block entirely (its nodes keep their numbers)
                        let mut sink = String::new();
                        block(t, &mut sink, node, marker, dev);
                    } else {
                        block(t, out, node, marker, dev);
                    }
                    if let Some(e) = e {
                        out.push_str("else\n");
                        block(e, out, node, marker, dev);
                    }
                    out.push('\n');
                }
                Sk::Loop(until, body) => {
                    let kw = if *until { "until not" } else { "while" };
                    let mut pre = String::new();
                    let head = match alt {
                        None => format!("{} roll q", kw),
                        Some(0) => format!("{} roll ea", kw),          // empty queue: zero iterations
                        Some(1) => format!("{} roll p", kw),           // three-item queue
                        Some(2) => {
                            pre = "build cn up\n".into();
                            if *until { "until cn is 2".into() } else { "while cn is less than 2".into() }
                        }
                        Some(3) => {
                            pre = "put not tv into tv\n".into();
                            if *until { "until not tv".into() } else { "while tv".into() }
                        }
                        Some(4) => if *until { "while roll q".into() } else { "until not roll q".into() },
                        Some(5) => {
                            // guard of another kind: a string from a queue of strings is truthy
                            pre = String::new();
                            format!("{} roll q and \"\"", kw)
                        }
                        Some(k) => {
                            // the guard is a variable holding a value of kind k; the body's first statement ends the loop
                            let kind = GUARD_KINDS[k - 6];
                            out.push_str(&format!("put {} into gv\n", kind));
                            pre = if *until { "put true into gv\n".into() } else { "put false into gv\n".into() };
                            if *until { "until gv".into() } else { "while gv".into() }
                        }
                    };
                    out.push_str(&head);
                    out.push('\n');
                    out.push_str(&pre);
                    block(body, out, node, marker, dev);
                    out.push('\n');
                }
            }
        }
    }
    block(prog, &mut out, &mut node, &mut marker, dev);
    if !close_last {
        // leave the trailing blank lines off: the last blocks are closed by end of input
        while out.ends_with("\n\n") {
            out.pop();
        }
    }
    out
}

/// conditions and guards that do something when evaluated (print, consume, fail)
pub const EFFECT_CONDS: &[&str] = &["loud taking 1", "loud taking 0", "boom taking 1", "roll q", "not roll q", "loud taking 1 and loud taking 0", "loud taking 0 or loud taking 2", "1 is less than true", "zed", "q at q", "roll q is 1"];
/// empty blocks where the text leaves no choice how they close (end of input, directly before else), and
/// loops left by break / continue / return whose guard has an effect; `@C` is the condition
pub const EFFECT_SHAPES: &[&str] = &[
    "if @C\n",
    "if @C\nelse\nsay 2\n\nsay 3\n",
    "if @C\nsay 1\nelse\n",
    "say 0\nif @C\n",
    "while c is less than 2\nbuild c up\nif @C\n",
    "while c is less than 2\nbuild c up\nsay c\nif @C\nelse\nsay 2\n\n\nsay 3\n",
    "fun takes k\nif @C\nelse\nsay 2\n\ngive back 1\n\nsay fun taking 1\nsay q\n",
    "while @C\n",
    "until @C\n",
    "say 0\nuntil c is 1\nbuild c up\nwhile @C\n",
    "if @C\nsay 1\n\nsay q\n",
    "while @C\nsay 1\nbreak\n\nsay q\n",
    "while @C\nsay 1\nif true\nif true\nbreak\n\n\nsay 7\n\nsay q\n",
    "until @C\nsay 1\nbreak\n\nsay q\n",
    "while @C\nbuild c up\nif c is less than 2\ncontinue\n\nsay c\nbreak\n\nsay q\n",
    "fun takes k\nwhile @C\nsay 1\ngive back 5\n\ngive back 6\n\nsay fun taking 1\nsay q\n",
    "fun takes k\nuntil @C\nif true\ngive back 5\n\n\ngive back 6\n\nsay fun taking 1\nsay q\n",
    "while c is less than 2\nbuild c up\nwhile @C\nbreak\n\nsay c\n\nsay q\n",
];
const EFFECT_PRELUDE: &str = "rock q with 1, 0, 2, 1, 1\nloud takes k\nsay \"loud\"\nsay k\ngive back k\n\nboom takes k\nsay - true\n\nput 0 into c\n";

/// bare literals of every kind as condition / guard (a loop body leaves by break, so every program ends)
pub const LITERAL_GUARDS: &[&str] = &["true", "false", "1", "0", "0.5", "-1", "\"yes\"", "\"\"", "\"0\"", "null", "mysterious", "empty", "right", "wrong", "nothing", "not true", "not 0"];

pub fn effect_programs() -> Vec<String> {
    let mut v = Vec::new();
    for g in LITERAL_GUARDS {
        for kw in ["while", "until"] {
            v.push(format!("say 0\n{} {}\nsay 1\nbreak\n\nsay 2\n", kw, g));
            v.push(format!("put 0 into c\n{} {}\nbuild c up\nsay c\nif c is 3\nbreak\n\n\nsay 9\n", kw, g));
            v.push(format!("fun takes k\n{} {}\ngive back 1\n\ngive back 2\n\nsay fun taking 0\n", kw, g));
        }
        v.push(format!("if {}\nsay 1\nelse\nsay 2\n\nsay 3\n", g));
        v.push(format!("if {}\nsay 1\n\nsay 3\n", g));
        v.push(format!("if {}\nelse\nsay 2\n\nsay 3\n", g));
    }
    for sh in EFFECT_SHAPES {
        for c in EFFECT_CONDS {
            v.push(format!("{}{}", EFFECT_PRELUDE, sh.replace("@C", c)));
        }
    }
    v
}

pub struct C04 {
    core: Space<Vec<Sk>>,
    small: Space<Vec<Sk>>,
    dev_prefix: Rc<Vec<u64>>,
}

fn build(tier: Tier) -> Box<dyn Check> {
    let core = programs_up_to(tier.pick(7, 8));
    let small = programs_up_to(tier.pick(5, 7));
    let mut prefix = Vec::with_capacity(small.len() as usize + 1);
    let mut total = 0u64;
    for p in small.iter() {
        prefix.push(total);
        total += count_devs(&p) as u64;
    }
    prefix.push(total);
    Box::new(C04 { core, small, dev_prefix: Rc::new(prefix) })
}

impl C04 {
    fn text(&self, fam: usize, idx: u64) -> String {
        match fam {
            0 => render(&self.core.get(idx), None, true),
            1 => render(&self.small.get(idx), None, false),
            3 => super::scale::programs()[idx as usize].clone(),
            4 => effect_programs()[idx as usize].clone(),
            _ => {
                let p = match self.dev_prefix.binary_search(&idx) {
                    Ok(mut p) => {
                        while self.dev_prefix[p + 1] == self.dev_prefix[p] {
                            p += 1;
                        }
                        p
                    }
                    Err(p) => p - 1,
                };
                let prog = self.small.get(p as u64);
                let k = (idx - self.dev_prefix[p]) as usize;
                render(&prog, Some(nth_dev(&prog, k)), true)
            }
        }
    }
}

impl Check for C04 {
    fn families(&self) -> Vec<(String, u64)> {
        vec![
            ("core".into(), self.core.len()),
            ("closed-by-end-of-input".into(), self.small.len()),
            ("rich-deviation".into(), *self.dev_prefix.last().unwrap()),
            ("thresholds".into(), super::scale::programs().len() as u64),
            ("effectful conditions and guards".into(), effect_programs().len() as u64),
        ]
    }
    fn describe(&self, fam: usize, idx: u64) -> Value {
        json!({ "text": self.text(fam, idx) })
    }
    fn run_case(&self, fam: usize, idx: u64, ctx: &mut Ctx) {
        let text = self.text(fam, idx);
        ctx.case_text(&text);
        let opts = JudgeOpts { limits: crate::refmodel::interp::Limits { steps: 3_000_000, depth: 150 }, ..Default::default() };
        let (j, o) = judge(&text, b"", &opts, ctx);
        if let Judged::Agree | Judged::Violation = j {
            if text.contains("if ") || text.contains("while ") || text.contains("until ") {
                ctx.nontrivial();
            }
            if let Some(o) = o {
                ctx.add("markers_printed", o.out.len() as u64);
                if text.contains("break") {
                    ctx.count("with_break");
                }
                if text.contains("continue") || text.contains("take it") {
                    ctx.count("with_continue");
                }
            }
        }
    }
    fn static_coverage(&self) -> Value {
        json!({"effectful_conditions": EFFECT_CONDS, "effect_shapes": EFFECT_SHAPES, "condition_alternatives": COND_ALTS, "loop_guard_alternatives": LOOP_ALTS})
    }
}

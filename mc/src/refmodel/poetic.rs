//! Reference reading of a poetic number literal: the decimal numeral its words spell.
use super::rast::PElem;

pub fn word_len(w: &str) -> usize {
    w.chars().filter(|c| *c != '\'').count()
}

/// The decimal numeral (digits with at most one '.') or None for a degenerate literal
/// (a suffix with no word before it, or no word at all).
pub fn numeral(elems: &[PElem]) -> Option<String> {
    let mut s = String::new();
    let mut seen_dot = false;
    let mut words = 0;
    let mut i = 0;
    while i < elems.len() {
        match &elems[i] {
            PElem::Dot => {
                if !seen_dot {
                    seen_dot = true;
                    s.push('.');
                }
                i += 1;
            }
            PElem::Suffix(_) => return None,
            PElem::Word(w) => {
                let mut len = word_len(w);
                i += 1;
                while i < elems.len() {
                    if let PElem::Suffix(x) = &elems[i] {
                        len += word_len(x);
                        i += 1;
                    } else {
                        break;
                    }
                }
                s.push(char::from(b'0' + (len % 10) as u8));
                words += 1;
            }
        }
    }
    if words == 0 {
        None
    } else {
        Some(s)
    }
}

/// correctly rounded value of the numeral
pub fn value(elems: &[PElem]) -> Option<f64> {
    let n = numeral(elems)?;
    let n = if n.starts_with('.') { format!("0{}", n) } else { n };
    let n = if n.ends_with('.') { format!("{}0", n) } else { n };
    n.parse().ok()
}

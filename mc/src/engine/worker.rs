//! Worker process: sweeps the chunks of one shard in one build configuration.
use super::*;
use std::collections::HashSet;
use std::io::Write;
use std::panic::{catch_unwind, AssertUnwindSafe};
use std::sync::atomic::{AtomicBool, AtomicU64, Ordering};
use std::sync::Mutex;

static CUR_G: AtomicU64 = AtomicU64::new(u64::MAX);
static IN_FLIGHT: AtomicBool = AtomicBool::new(false);
pub static LAST_PANIC: Mutex<String> = Mutex::new(String::new());

pub fn install_panic_hook() {
    std::panic::set_hook(Box::new(|info| {
        let msg = if let Some(s) = info.payload().downcast_ref::<&str>() {
            s.to_string()
        } else if let Some(s) = info.payload().downcast_ref::<String>() {
            s.clone()
        } else {
            "<non-string panic payload>".to_string()
        };
        let loc = info
            .location()
            .map(|l| format!("{}:{}", l.file(), l.line()))
            .unwrap_or_default();
        if let Ok(mut g) = LAST_PANIC.lock() {
            *g = format!("{} @ {}", msg, loc);
        }
    }));
}

pub fn take_panic() -> String {
    LAST_PANIC.lock().map(|mut g| std::mem::take(&mut *g)).unwrap_or_default()
}

pub fn process_cpu_ns() -> u64 {
    let mut ts = libc::timespec { tv_sec: 0, tv_nsec: 0 };
    unsafe { libc::clock_gettime(libc::CLOCK_PROCESS_CPUTIME_ID, &mut ts) };
    ts.tv_sec as u64 * 1_000_000_000 + ts.tv_nsec as u64
}

pub fn limit_address_space(bytes: u64) {
    let lim = libc::rlimit { rlim_cur: bytes, rlim_max: bytes };
    unsafe { libc::setrlimit(libc::RLIMIT_AS, &lim) };
    // no core dumps
    let z = libc::rlimit { rlim_cur: 0, rlim_max: 0 };
    unsafe { libc::setrlimit(libc::RLIMIT_CORE, &z) };
}

fn raw_stdout(line: &str) {
    // unbuffered, survives a following abort
    let b = line.as_bytes();
    let mut off = 0;
    while off < b.len() {
        let n = unsafe { libc::write(1, b[off..].as_ptr() as *const libc::c_void, b.len() - off) };
        if n <= 0 {
            break;
        }
        off += n as usize;
    }
}

/// A case that burns more CPU than this is a hang (cases normally take microseconds).
pub fn hang_limit_ns() -> u64 {
    std::env::var("MC_HANG_LIMIT_S").ok().and_then(|s| s.parse::<u64>().ok()).unwrap_or(10) * 1_000_000_000
}

fn start_watchdog() {
    let limit = hang_limit_ns();
    std::thread::spawn(move || {
        let mut last_g = u64::MAX;
        let mut cpu0 = 0u64;
        loop {
            std::thread::sleep(std::time::Duration::from_millis(100));
            if !IN_FLIGHT.load(Ordering::SeqCst) {
                last_g = u64::MAX;
                continue;
            }
            let g = CUR_G.load(Ordering::SeqCst);
            let now = process_cpu_ns();
            if g != last_g {
                last_g = g;
                cpu0 = now;
            } else if now - cpu0 > limit {
                raw_stdout(&format!(
                    "V\t{}\thang\t{}\n",
                    g,
                    serde_json::to_string(&format!(
                        "case consumed more than {} s of CPU without returning ({} build)",
                        limit / 1_000_000_000,
                        config_name()
                    ))
                    .unwrap()
                ));
                unsafe { libc::_exit(4) };
            }
        }
    });
}

pub struct WorkerArgs {
    pub shard: u64,
    pub nshards: u64,
    pub start_after: Option<u64>,
    pub announce: bool,
    pub only_chunk: Option<u64>,
    pub dump: bool,
    pub hashes: Option<String>,
}

pub struct CaseOutcome {
    pub violations: Vec<Violation>,
    pub observation: Vec<u8>,
    pub nontrivial: bool,
}

/// run one case under catch_unwind; a panic that escapes the subject is a violation
pub fn run_one(check: &dyn Check, fam: usize, idx: u64, ctx: &mut Ctx) {
    let r = catch_unwind(AssertUnwindSafe(|| check.run_case(fam, idx, ctx)));
    if r.is_err() {
        let msg = take_panic();
        ctx.observe_str("<panic>");
        ctx.violation("panic", format!("{} build panicked: {}", config_name(), msg));
    }
}

pub fn worker_main(check: Box<dyn Check>, args: WorkerArgs) -> i32 {
    install_panic_hook();
    limit_address_space(6 << 30);
    let layout = Layout::new(check.families());
    start_watchdog();
    let out = std::io::stdout();
    let mut out = std::io::BufWriter::new(out.lock());
    let mut ctx = Ctx::new();
    let mut nontrivial = 0u64;
    let mut evaluated = 0u64;
    let track_hashes = args.hashes.is_some();
    let mut case_hashes: HashSet<u64> = HashSet::new();
    let mut outcome_digests: HashSet<u64> = HashSet::new();
    let mut violations_emitted = 0u64;
    let nchunks = layout.chunks();
    let mut k = args.shard;
    if let Some(c) = args.only_chunk {
        k = c;
    }
    while k < nchunks {
        let lo = k * CHUNK;
        let hi = ((k + 1) * CHUNK).min(layout.total);
        let mut h = 0xabcdef12345u64;
        let mut n = 0u64;
        let mut skipped_partial = false;
        for g in lo..hi {
            if let Some(sa) = args.start_after {
                if g <= sa {
                    skipped_partial = true;
                    continue;
                }
            }
            let (fam, idx) = layout.locate(g);
            if args.announce {
                out.flush().ok();
                raw_stdout(&format!("@\t{}\n", g));
            }
            ctx.violations.clear();
            ctx.observation.clear();
            ctx.nontrivial = false;
            ctx.case_key = None;
            CUR_G.store(g, Ordering::SeqCst);
            IN_FLIGHT.store(true, Ordering::SeqCst);
            run_one(check.as_ref(), fam, idx, &mut ctx);
            IN_FLIGHT.store(false, Ordering::SeqCst);
            evaluated += 1;
            let oh = fnv(&ctx.observation);
            h = mix(h, mix(g, oh));
            n += 1;
            if outcome_digests.len() < (1 << 20) {
                outcome_digests.insert(oh);
            }
            if ctx.nontrivial {
                nontrivial += 1;
                if track_hashes {
                    case_hashes.insert(ctx.case_key.unwrap_or_else(|| mix(fam as u64 + 1, idx)));
                }
            }
            if args.dump {
                writeln!(
                    out,
                    "D\t{}\t{:016x}\t{}",
                    g,
                    oh,
                    serde_json::to_string(&String::from_utf8_lossy(&ctx.observation)).unwrap()
                )
                .ok();
            }
            for v in ctx.violations.drain(..) {
                if violations_emitted < 200 {
                    writeln!(out, "V\t{}\t{}\t{}", g, v.kind, serde_json::to_string(&v.detail).unwrap()).ok();
                    violations_emitted += 1;
                }
            }
        }
        if !skipped_partial {
            writeln!(out, "H\t{}\t{:016x}\t{}", k, h, n).ok();
        } else {
            writeln!(out, "P\t{}", k).ok();
        }
        out.flush().ok();
        if args.only_chunk.is_some() {
            break;
        }
        if violations_emitted >= 8 {
            // enough to report; do not burn the budget on a tree that is already failing
            writeln!(out, "STOP").ok();
            break;
        }
        k += args.nshards;
    }
    for (key, c) in &ctx.counters {
        writeln!(out, "C\t{}\t{}", key, c).ok();
    }
    for (set, members) in &ctx.sets {
        for m in members {
            writeln!(out, "S\t{}\t{}", set, serde_json::to_string(m).unwrap()).ok();
        }
    }
    for note in &ctx.notes {
        writeln!(out, "T\t{}", serde_json::to_string(note).unwrap()).ok();
    }
    writeln!(out, "N\t{}\t{}", evaluated, nontrivial).ok();
    let mut od: Vec<u64> = outcome_digests.into_iter().collect();
    od.sort();
    od.truncate(50_000);
    for d in od {
        writeln!(out, "O\t{:016x}", d).ok();
    }
    if let Some(path) = &args.hashes {
        let mut v: Vec<u64> = case_hashes.into_iter().collect();
        v.sort();
        let mut bytes = Vec::with_capacity(v.len() * 8);
        for x in v {
            bytes.extend_from_slice(&x.to_le_bytes());
        }
        std::fs::write(path, bytes).ok();
    }
    writeln!(out, "DONE").ok();
    out.flush().ok();
    0
}

//! C06 — arrays are independent values with queue and dictionary behaviour.
//! Explicit-state breadth-first search over copy/mutate histories of three variables; the key of a
//! state contains the values AND the sharing partition of array occurrences; every transition is
//! validated by replaying history + action + observation suffix on the real interpreter.
use super::judge::{judge, JudgeOpts, Judged};
use crate::engine::*;
use crate::refmodel::interp::{Interp, Limits};
use crate::refmodel::rast::{self, Name, Stmt};
use crate::refmodel::value::{Stop, V};
use serde_json::{json, Value};
use std::collections::{HashMap, HashSet};

pub const DEF: PropDef = PropDef {
    id: "C06",
    level: "model_checking",
    rule: "explicit-state BFS from the empty state over ~57 actions (index writes with numeric / dictionary keys incl. the number-like string key \"1\", nested writes, rock in all forms, roll, copies by assignment / element / function argument and result, scalar coercion, error actions, observation actions incl. array operands on either side of minus / over) on three variables; states deduplicated on a canonical key = values + sharing partition of array occurrences; every transition (state, action) is replayed as a full program (history + action + observation of all three variables, every index 0..len, every dictionary key, the fixed probe keys k j true false null mysterious and the strings 0 1 2 true null and empty, one level of nesting) on the real interpreter and compared with the reference; depth-bounded, the frontier does not close",
    assumptions: &[
        "canonicalisation: the future of a copy-on-write implementation depends only on values and on which occurrences may still share storage; sharing is only possible along copy chains without intervening write, which is the partition carried in the key",
        "states with sequences longer than 4 or nesting deeper than 2 are validated but not expanded (caps reported)",
        "reference interpreter written from the property text",
    ],
    build,
    exhaustive: true,
};

pub const PRELUDE: &str = "mu takes k\nrock k with 9\nlet k at 0 be 8\ngive back k\n\n";

pub fn action_texts() -> Vec<String> {
    let mut v: Vec<String> = Vec::new();
    for k in ["0", "1", "3", "\"k\"", "true", "null", "mysterious", "\"j\"", "\"1\""] {
        for val in ["7", "\"s\"", "y"] {
            v.push(format!("let x at {} be {}\n", k, val));
        }
    }
    for s in [
        "let x at 0 at 1 be 7\n",
        "let x at 0 at 1 be y\n",
        "rock x\n",
        "rock x with 7\n",
        "rock x with 7, \"s\"\n",
        "rock x with y\n",
        "rock x with 1, x\n",
        "rock x with roll x, roll x\n",
        "rock y with x, roll x\n",
        "rock x like a rolling stone\n",
        "rock x at 0 with 5\n",
        "roll x\n",
        "roll x into y\n",
        "put roll x into y\n",
        "roll x at 0\n",
        "let y be x\n",
        "put x into y\n",
        "put x at 0 into y\n",
        "let y at 0 be x\n",
        "put y into z\n",
        "put z into x\n",
        "mu taking x\n",
        "put mu taking x into y\n",
        "let x be 5\n",
        "let x be with 1\n",
        // error actions (in some states)
        "put 5 into z\nsay z at 0\n",
        "say x at y\n",
        "let x at y be 1\n",
        "put \"s\" into z\nlet z at 0 be 1\n",
        "put true into z\nroll z\n",
        "put null into z\nsay z at 0\n",
        // observation actions
        "say x\n",
        "say x at 0\n",
        "say x is 2\n",
        "say x plus 1\n",
        "say x times 2\n",
        "say x minus 1\nsay x over 2\nsay 5 minus x\n",
        "say x at 0 at 0\n",
        "say x is y\n",
        "say x at 1 is y at 1\n",
        // against null an array counts as its sequence length, whatever keys it has
        "say x is nothing\nsay nothing is x\n",
        "say x is as low as nothing\n",
        // the array is read before its subscript is evaluated
        "say x at roll x\n",
        "put x at roll x into y\n",
    ] {
        v.push(s.to_string());
    }
    v
}

const VARS: [&str; 3] = ["x", "y", "z"];

#[derive(Clone)]
pub struct St {
    pub vals: [Option<V>; 3],
    pub parent: u32,
    pub action: u16,
    pub depth: u8,
}

pub struct Model {
    pub actions: Vec<(String, Vec<Stmt>)>,
    pub prelude: Vec<Stmt>,
    pub states: Vec<St>,
    pub transitions: Vec<(u32, u16)>,
    pub distinct_states: u64,
    pub per_depth: Vec<(u64, u64)>,
    pub capped: u64,
    pub frontier_closed: bool,
    pub depth: usize,
}

fn parse_stmts(text: &str) -> Vec<Stmt> {
    rast::program(&rrss::frontend::parser::parse(text).unwrap_or_else(|e| panic!("action {:?} does not parse: {}", text, e)))
}

fn canon(v: &V, classes: &mut HashMap<u64, usize>, out: &mut String) {
    match v {
        V::Arr(a) => {
            let n = classes.len();
            let c = *classes.entry(a.id).or_insert(n);
            out.push_str(&format!("[c{}:", c));
            for e in &a.seq {
                canon(e, classes, out);
                out.push(',');
            }
            out.push('|');
            let mut d: Vec<(String, &V)> = a.dict.iter().map(|(k, v)| (format!("{:?}", k), v)).collect();
            d.sort_by(|a, b| a.0.cmp(&b.0));
            for (k, e) in d {
                out.push_str(&k);
                out.push(':');
                canon(e, classes, out);
                out.push(',');
            }
            out.push(']');
        }
        other => out.push_str(&other.canon()),
    }
}

pub fn key_of(vals: &[Option<V>; 3]) -> (String, u128) {
    let mut classes = HashMap::new();
    let mut s = String::new();
    for v in vals {
        match v {
            None => s.push_str("-;"),
            Some(v) => {
                canon(v, &mut classes, &mut s);
                s.push(';');
            }
        }
    }
    let h1 = fnv(s.as_bytes());
    let h2 = mix(h1, fnv(s.as_bytes().iter().rev().cloned().collect::<Vec<u8>>().as_slice()));
    let h = ((h1 as u128) << 64) | h2 as u128;
    (s, h)
}

fn depth_of(v: &V) -> usize {
    match v {
        V::Arr(a) => 1 + a.seq.iter().chain(a.dict.iter().map(|(_, v)| v)).map(depth_of).max().unwrap_or(0),
        _ => 0,
    }
}

fn max_len(v: &V) -> usize {
    match v {
        V::Arr(a) => a.seq.len().max(a.dict.len()).max(a.seq.iter().chain(a.dict.iter().map(|(_, v)| v)).map(max_len).max().unwrap_or(0)),
        _ => 0,
    }
}

fn within_caps(vals: &[Option<V>; 3]) -> bool {
    vals.iter().flatten().all(|v| depth_of(v) <= 2 && max_len(v) <= 4)
}

pub enum Step {
    Next([Option<V>; 3]),
    Error,
    NotJudged,
}

pub fn apply(prelude: &[Stmt], vals: &[Option<V>; 3], action: &[Stmt]) -> Step {
    let mut it = Interp::new(b"", false, Limits::default());
    let _ = it.run(prelude);
    for (i, name) in VARS.iter().enumerate() {
        if let Some(v) = &vals[i] {
            it.set_global(&Name::Simple(name.to_string()), v.clone());
        }
    }
    let o = it.run(action);
    match o.end {
        crate::refmodel::interp::End::Ok => {
            let mut out: [Option<V>; 3] = [None, None, None];
            for (i, name) in VARS.iter().enumerate() {
                out[i] = it.global(&Name::Simple(name.to_string()));
            }
            Step::Next(out)
        }
        crate::refmodel::interp::End::Error(_) => Step::Error,
        _ => Step::NotJudged,
    }
}

pub fn build_model(depth: usize) -> Model {
    let actions: Vec<(String, Vec<Stmt>)> = action_texts().into_iter().map(|t| (t.clone(), parse_stmts(&t))).collect();
    let prelude = parse_stmts(PRELUDE);
    let root = St { vals: [None, None, None], parent: u32::MAX, action: 0, depth: 0 };
    let mut seen: HashSet<u128> = HashSet::new();
    seen.insert(key_of(&root.vals).1);
    let mut states = vec![root];
    let mut transitions = Vec::new();
    let mut frontier: Vec<u32> = vec![0];
    let mut per_depth = Vec::new();
    let mut capped = 0u64;
    let mut closed = false;
    for d in 0..depth {
        let mut next = Vec::new();
        let mut new_states = 0u64;
        let t_before = transitions.len();
        for &si in &frontier {
            let vals = states[si as usize].vals.clone();
            for (ai, (_, prog)) in actions.iter().enumerate() {
                transitions.push((si, ai as u16));
                if let Step::Next(nv) = apply(&prelude, &vals, prog) {
                    let (_, h) = key_of(&nv);
                    if seen.insert(h) {
                        new_states += 1;
                        if !within_caps(&nv) {
                            capped += 1;
                        } else if d + 1 < depth {
                            states.push(St { vals: nv, parent: si, action: ai as u16, depth: (d + 1) as u8 });
                            next.push((states.len() - 1) as u32);
                        }
                    }
                }
            }
        }
        per_depth.push((new_states, (transitions.len() - t_before) as u64));
        if next.is_empty() && d + 1 < depth {
            closed = true;
            break;
        }
        frontier = next;
    }
    Model { actions, prelude, distinct_states: seen.len() as u64, states, transitions, per_depth, capped, frontier_closed: closed, depth }
}

fn quote_key(k: &crate::refmodel::value::Key) -> String {
    use crate::refmodel::value::Key;
    match k {
        Key::Myst => "mysterious".into(),
        Key::Null => "null".into(),
        Key::Bool(b) => b.to_string(),
        Key::Str(s) => format!("\"{}\"", s),
    }
}

/// language-level observation of all three variables, guaranteed-valid reads only
pub fn observation_suffix(vals: &[Option<V>; 3]) -> String {
    let mut s = String::new();
    for (i, name) in VARS.iter().enumerate() {
        let v = match &vals[i] {
            Some(v) => v,
            None => continue,
        };
        s.push_str(&format!("say {}\n", name));
        match v {
            V::Arr(a) => {
                for j in 0..=a.seq.len() {
                    s.push_str(&format!("say {} at {}\n", name, j));
                }
                for k in ["\"k\"", "\"j\"", "true", "false", "null", "mysterious", "\"0\"", "\"1\"", "\"2\"", "\"true\"", "\"null\"", "\"\""] {
                    s.push_str(&format!("say {} at {}\n", name, k));
                }
                let elems: Vec<(String, &V)> = a
                    .seq
                    .iter()
                    .enumerate()
                    .map(|(j, e)| (j.to_string(), e))
                    .chain(a.dict.iter().map(|(k, e)| (quote_key(k), e)))
                    .collect();
                for (sel, e) in elems {
                    match e {
                        V::Arr(inner) => {
                            for j in 0..=inner.seq.len() {
                                s.push_str(&format!("say {} at {} at {}\n", name, sel, j));
                            }
                            for (k, _) in &inner.dict {
                                s.push_str(&format!("say {} at {} at {}\n", name, sel, quote_key(k)));
                            }
                            s.push_str(&format!("say {} at {} at \"k\"\n", name, sel));
                        }
                        V::Str(_) => s.push_str(&format!("say {} at {} at 0\n", name, sel)),
                        _ => {}
                    }
                }
            }
            V::Str(_) => s.push_str(&format!("say {} at 0\n", name)),
            _ => {}
        }
    }
    s
}

pub struct C06 {
    m: Model,
}

fn build(tier: Tier) -> Box<dyn Check> {
    Box::new(C06 { m: build_model(tier.pick(4, 5)) })
}

/// every value of the universe used as a subscript of every kind of container, for reading, writing,
/// rock, roll and copy (the reference decides which cells are determined; writes far beyond the end are
/// outside the resource bounds and skipped)
pub fn key_programs() -> &'static Vec<String> {
    static CACHE: std::sync::OnceLock<Vec<String>> = std::sync::OnceLock::new();
    CACHE.get_or_init(build_key_programs)
}

fn build_key_programs() -> Vec<String> {
    use super::universe::{ctor, U};
    const CONTAINERS: &[&str] = &["rock w with 4, 5, 6\n", "rock w with 4\nlet w at \"k\" be 1\nlet w at true be 2\n", "put \"abc\" into w\n", "put \"é😀z\" into w\n", "rock w\n", "put 5 into w\n", "put mysterious into w\n"];
    const OPS: &[&str] = &[
        "say w at y\n",
        "say w at y at 0\n",
        "put w at y into z\nsay z\n",
        "let w at y be 9\nsay w\nsay w at y\nsay w at 0\n",
        "let w at 0 at y be 9\nsay w at 0 at y\n",
        "rock w at y with 8\nsay w at y\n",
        "roll w at y\n",
        "put w into v\nlet v at y be 9\nsay w at y\nsay v at y\nsay w\n",
        "say w at y is w at y\n",
    ];
    let mut v = Vec::new();
    for c in CONTAINERS {
        for k in 0..U.len() {
            for o in OPS {
                v.push(format!("{}{}{}", c, ctor(k, "y"), o));
            }
        }
    }
    v
}

impl C06 {
    fn history(&self, si: u32) -> Vec<u16> {
        let mut h = Vec::new();
        let mut cur = si;
        while self.m.states[cur as usize].parent != u32::MAX {
            h.push(self.m.states[cur as usize].action);
            cur = self.m.states[cur as usize].parent;
        }
        h.reverse();
        h
    }
    fn program(&self, idx: u64) -> (String, Vec<String>) {
        let (si, ai) = self.m.transitions[idx as usize];
        let mut text = String::from(PRELUDE);
        let mut trace = Vec::new();
        for a in self.history(si) {
            text.push_str(&self.m.actions[a as usize].0);
            trace.push(self.m.actions[a as usize].0.trim_end().replace('\n', " / "));
        }
        let (atext, aprog) = &self.m.actions[ai as usize];
        text.push_str(atext);
        trace.push(atext.trim_end().replace('\n', " / "));
        if let Step::Next(nv) = apply(&self.m.prelude, &self.m.states[si as usize].vals, aprog) {
            text.push_str(&observation_suffix(&nv));
        }
        (text, trace)
    }
}

impl Check for C06 {
    fn families(&self) -> Vec<(String, u64)> {
        vec![("transitions".into(), self.m.transitions.len() as u64), ("thresholds".into(), super::scale::programs().len() as u64), ("every value as subscript".into(), key_programs().len() as u64)]
    }
    fn describe(&self, fam: usize, idx: u64) -> Value {
        if fam == 1 {
            return json!({"text": super::scale::programs()[idx as usize]});
        }
        if fam == 2 {
            return json!({"text": key_programs()[idx as usize]});
        }
        let (text, trace) = self.program(idx);
        json!({"text": text, "history": trace})
    }
    fn run_case(&self, fam: usize, idx: u64, ctx: &mut Ctx) {
        if fam >= 1 {
            let text = if fam == 1 { super::scale::programs()[idx as usize].clone() } else { key_programs()[idx as usize].clone() };
            ctx.case_text(&text);
            let opts = JudgeOpts { limits: Limits { steps: 3_000_000, depth: 150 }, ..Default::default() };
            let judged = judge(&text, b"", &opts, ctx).0;
            if let Judged::Agree | Judged::Violation = judged {
                ctx.nontrivial();
            }
            // where the reference leaves the subscript's meaning open (fractional, negative, NaN ...), one law
            // still holds: what was stored under a subscript is what is read back under the same subscript
            if fam == 2 && judged == Judged::Skipped && text.contains("let w at y be 9\nsay w\nsay w at y\n") {
                let r = crate::subject::exec_text(&text, b"");
                if r.parse_error.is_none() && r.result.is_ok() {
                    let out = r.stdout_str();
                    let lines: Vec<&str> = out.lines().collect();
                    ctx.count("read_after_write_law_checked");
                    if lines.len() < 2 || lines[1] != "9" {
                        ctx.violation("wrong-result", format!("a value stored with `let w at y be 9` is not read back by `say w at y` (printed {:?}) — program {:?}", lines.get(1), text));
                    }
                }
            }
            return;
        }
        let (text, _) = self.program(idx);
        ctx.case_text(&text);
        let (si, ai) = self.m.transitions[idx as usize];
        match apply(&self.m.prelude, &self.m.states[si as usize].vals, &self.m.actions[ai as usize].1) {
            Step::Next(_) => ctx.count("transitions.ok"),
            Step::Error => ctx.count("transitions.runtime_error"),
            Step::NotJudged => ctx.count("transitions.unspecified"),
        }
        let (j, _) = judge(&text, b"", &JudgeOpts { limits: Limits { steps: 50_000, depth: 24 }, ..Default::default() }, ctx);
        match j {
            Judged::Agree => {
                ctx.nontrivial();
                ctx.count("cov.traces_validated_against_impl");
            }
            Judged::Violation => ctx.nontrivial(),
            Judged::Skipped => {}
        }
    }
    fn static_coverage(&self) -> Value {
        json!({
            "states": self.m.distinct_states,
            "transitions": self.m.transitions.len(),
            "expanded_states": self.m.states.len(),
            "max_depth": self.m.depth,
            "new_states_and_transitions_per_depth": self.m.per_depth,
            "states_beyond_caps_not_expanded": self.m.capped,
            "frontier_closed": self.m.frontier_closed,
            "actions": self.m.actions.iter().map(|a| a.0.trim_end().replace('\n', " / ")).collect::<Vec<_>>(),
        })
    }
}

#!/bin/bash
# seed_round.sh <Cxx> [extra checks]   env: ROOT=/tmp/seed-out LETTERS="a b"
p="$1"; shift
ROOT="${ROOT:-/tmp/seed-out}"; LETTERS="${LETTERS:-a b}"
for x in $LETTERS; do
  [ -f $ROOT/$p/$x.patch.diff ] || { echo "$p$x: no patch"; continue; }
  v=$(/verif/tools/verify_seed.sh $ROOT/$p $x 2>&1 | tail -1)
  echo "$p$x verify: $v"
  /verif/tools/try_seed.sh $ROOT/$p/$x.patch.diff $p "$@" 2>&1 | sed "s/^/$p$x try: /"
done

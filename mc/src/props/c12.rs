//! C12 — tokens carry their exact spelling and true source position.
use crate::engine::space::{strings, Space};
use crate::engine::*;
use rrss::frontend::lexer::{Lexer, Token, TokenType};
use serde_json::{json, Value};

pub const DEF: PropDef = PropDef {
    id: "C12",
    level: "exploration",
    rule: "complete enumeration of all strings up to the length bound over a 20-symbol alphabet tuned to position bookkeeping (quotes, parentheses, LF, CR, apostrophe, the letters of 's / 're / 'n', a 2-byte letter, digit, dot, underscore, space, NBSP, ignorable punctuation) plus all glued/spaced sequences of multi-line strings, comments, suffixes, words, numbers and newlines; plus the same pieces after prefixes that push the line or column to 254..257 and 65535..65536 (newlines, spaces, a comment of that many lines, a long string); plus all strings of length <=3 over every printable ASCII character and tab / CR / LF; plus 41 Unicode class representatives alone and in all pairs in 20 lexical positions (lexemes::unicode_texts); every token of the real lexer is checked structurally against the source; non-trivial = at least 2 tokens, or a token spanning a line break, or a suffix token; distinct = distinct text",
    assumptions: &[
        "the oracle is structural (slices, gaps, line/column arithmetic recomputed from the source), it does not know which alias maps to which keyword (C02's business)",
        "tokens whose spelling ends in a line break are exempt from the end-position rule, as the property states",
    ],
    build,
    exhaustive: true,
};

pub const ALPHABET: &[&str] = &["\"", "(", ")", "\n", "\r", "'", "s", "r", "e", "n", "a", "é", "1", ".", "_", " ", "\u{a0}", "!", "İ", "€"];

pub const PIECES: &[&str] = &["\"a\nb\"", "(a\nb)", "'s", "'re", "x", "1", "\n", "\"u", "é", ".", "\"\"", "(c)", "'n'", "it's", "İa's", "ẞa's", "Ka're", "€"];

pub struct C12 {
    fams: Vec<(String, Space<String>)>,
}

fn build(tier: Tier) -> Box<dyn Check> {
    let chars = strings(ALPHABET, 0, tier.pick(6, 7));
    let pieces: Space<&'static str> = Space::of(PIECES.to_vec());
    let seps: Space<&'static str> = Space::of(vec!["", " "]);
    // piece (sep piece)*  up to 4 / 5 pieces
    let mut parts = Vec::new();
    let mut acc: Space<String> = pieces.map(|p| p.to_string());
    parts.push(acc.clone());
    for _ in 1..tier.pick(4, 5) {
        let sp = seps.product(&pieces, |s, p| format!("{}{}", s, p));
        acc = acc.product(&sp, |a, b| format!("{}{}", a, b));
        parts.push(acc.clone());
    }
    let seqs = Space::union(parts);
    // far positions: lines and columns around 2^8 and 2^16
    let tails: Space<String> = Space::union(vec![pieces.map(|p| p.to_string()), pieces.product(&seps.product(&pieces, |s, p| format!("{}{}", s, p)), |a, b| format!("{}{}", a, b))]);
    let ks: Space<usize> = Space::of(vec![254, 255, 256, 257, 65535, 65536]);
    let kinds: Space<usize> = Space::of(vec![0, 1, 2, 3]);
    let far = ks.product(&kinds, |k, kind| (k, kind)).product(&tails, |(k, kind), t| {
        let prefix = match kind {
            0 => "\n".repeat(k),
            1 => " ".repeat(k),
            2 => format!("({})", "\n".repeat(k)),
            _ => format!("\"{}\" ", "é".repeat(k / 2)),
        };
        format!("{}{}", prefix, t)
    });
    Box::new(C12 { fams: vec![("chars".into(), chars), ("pieces".into(), seqs), ("far-positions".into(), far), ("unicode-classes".into(), Space::of(super::lexemes::unicode_texts())), ("long-multibyte-tokens".into(), Space::of(super::lexemes::long_multibyte_texts())), ("all-ascii <=3".into(), super::lexemes::all_ascii(3))] })
}

fn gap_ok(gap: &str) -> Result<(), char> {
    for c in gap.chars() {
        let ok = (c.is_whitespace() && c != '\n')
            || c == '\''
            || matches!(c, '!' | '#' | '$' | '%' | ')' | ':' | ';' | '=' | '?' | '@' | '[' | '\\' | ']' | '^' | '`' | '{' | '|' | '}' | '~');
        if !ok {
            return Err(c);
        }
    }
    Ok(())
}

fn wordlike(s: &str) -> bool {
    !s.is_empty() && s.chars().all(|c| c.is_alphabetic() || c == '\'') && s.chars().next().map_or(false, |c| c.is_alphabetic())
}

fn id_consistent(tok: &Token) -> Result<(), String> {
    let sp = tok.spelling;
    let ok = match tok.id {
        TokenType::Number(n) => match sp.parse::<f64>() {
            Ok(m) => m.to_bits() == n.to_bits() || (m.is_nan() && n.is_nan()),
            Err(_) => false,
        },
        TokenType::StringLiteral(s) => sp.len() >= 2 && sp.starts_with('"') && sp.ends_with('"') && &sp[1..sp.len() - 1] == s && !s.contains('"'),
        TokenType::Comment(s) => sp.len() >= 2 && sp.starts_with('(') && sp.ends_with(')') && &sp[1..sp.len() - 1] == s && !s.contains(')'),
        TokenType::Error(_) => !sp.is_empty(),
        TokenType::Newline => sp == "\n",
        TokenType::ApostropheS => sp.eq_ignore_ascii_case("'s"),
        TokenType::ApostropheRE => sp.eq_ignore_ascii_case("'re"),
        TokenType::ApostropheNApostrophe => sp.eq_ignore_ascii_case("'n'"),
        TokenType::Comma => sp == ",",
        TokenType::Dot => sp == ".",
        TokenType::Ampersand => sp == "&",
        TokenType::Plus => sp == "+" || wordlike(sp),
        TokenType::Minus => sp == "-" || wordlike(sp),
        TokenType::Multiply => sp == "*" || wordlike(sp),
        TokenType::Divide => sp == "/" || wordlike(sp),
        TokenType::Less => sp == "<",
        TokenType::LessEq => sp == "<=",
        TokenType::Greater => sp == ">",
        TokenType::GreaterEq => sp == ">=",
        _ => wordlike(sp),
    };
    if ok {
        Ok(())
    } else {
        Err(format!("token id {:?} is inconsistent with its spelling {:?}", tok.id, sp))
    }
}

/// incremental (line, byte column) bookkeeping over increasing offsets (linear in the text)
struct Pos<'a> {
    src: &'a [u8],
    at: usize,
    line: u32,
    line_start: usize,
}

impl<'a> Pos<'a> {
    fn new(src: &'a str) -> Self {
        Pos { src: src.as_bytes(), at: 0, line: 1, line_start: 0 }
    }
    /// (line, column) of `off` (must not decrease between calls)
    fn locate(&mut self, off: usize) -> (u32, u32) {
        while self.at < off {
            if self.src[self.at] == b'\n' {
                self.line += 1;
                self.line_start = self.at + 1;
            }
            self.at += 1;
        }
        (self.line, (off - self.line_start) as u32)
    }
}

pub fn check_tokens(src: &str, ctx: &mut Ctx) {
    let base = src.as_ptr() as usize;
    let mut prev_end = 0usize;
    let mut ntok = 0usize;
    let mut interesting = false;
    let mut obs = String::new();
    let mut pos = Pos::new(src);
    for tok in Lexer::new(src) {
        ntok += 1;
        if ntok > src.len() + 2 {
            ctx.violation("lexer-no-progress", format!("more tokens than bytes ({})", ntok));
            break;
        }
        let p = tok.spelling.as_ptr() as usize;
        let len = tok.spelling.len();
        if p < base || p + len > base + src.len() {
            ctx.violation("not-a-slice", format!("token {:?} spelling is not a sub-slice of the source", tok.id));
            break;
        }
        let off = p - base;
        use std::fmt::Write;
        let _ = write!(obs, "{:?}@{}+{}:{:?};", tok.id, off, len, tok.range);
        if off < prev_end {
            ctx.violation("overlap", format!("token {:?} at byte {} starts before the end ({}) of the previous token", tok.spelling, off, prev_end));
            break;
        }
        if let Err(c) = gap_ok(&src[prev_end..off]) {
            ctx.violation("dropped-text", format!("significant character {:?} between tokens was dropped (gap {:?} before token {:?})", c, &src[prev_end..off], tok.spelling));
        }
        if let Err(e) = id_consistent(&tok) {
            ctx.violation("id-spelling", e);
        }
        if len == 0 {
            ctx.violation("empty-token", format!("empty token {:?} at byte {}", tok.id, off));
            break;
        }
        let (l, c) = pos.locate(off);
        let st = tok.range.start();
        if (st.line, st.column) != (l, c) {
            ctx.violation(
                "start-position",
                format!("token {:?} at byte {}: reported start {}:{} but true line/column is {}:{}", tok.spelling, off, st.line, st.column, l, c),
            );
        }
        if !tok.spelling.ends_with('\n') {
            let last_len = tok.spelling.chars().last().map_or(1, |c| c.len_utf8());
            let (ll, lc) = pos.locate(off + len - last_len);
            let en = tok.range.end();
            if (en.line, en.column) != (ll, lc + last_len as u32) {
                ctx.violation(
                    "end-position",
                    format!("token {:?} at byte {}: reported end {}:{} but one past its last character is {}:{}", tok.spelling, off, en.line, en.column, ll, lc + last_len as u32),
                );
            }
        }
        if tok.spelling.contains('\n') && len > 1 || matches!(tok.id, TokenType::ApostropheS | TokenType::ApostropheRE) {
            interesting = true;
        }
        prev_end = off + len;
    }
    if let Err(c) = gap_ok(&src[prev_end..]) {
        ctx.violation("dropped-text", format!("significant character {:?} after the last token was dropped (tail {:?})", c, &src[prev_end..]));
    }
    if ntok >= 2 || interesting {
        ctx.nontrivial();
    }
    if ntok == 0 {
        ctx.count("no_tokens");
    }
    if interesting {
        ctx.count("with_multiline_or_suffix_token");
    }
    ctx.add("tokens", ntok as u64);
    ctx.observe_str(&obs);
}

impl Check for C12 {
    fn families(&self) -> Vec<(String, u64)> {
        self.fams.iter().map(|(n, s)| (n.clone(), s.len())).collect()
    }
    fn describe(&self, fam: usize, idx: u64) -> Value {
        let t = self.fams[fam].1.get(idx);
        if t.len() > 600 {
            let head: String = t.chars().take(20).collect();
            let n = t.chars().count();
            let tail: String = t.chars().skip(n - 40).collect();
            json!({"text": format!("{}…({} bytes, {} line breaks)…{}", head, t.len(), t.matches('\n').count(), tail)})
        } else {
            json!({ "text": t })
        }
    }
    fn run_case(&self, fam: usize, idx: u64, ctx: &mut Ctx) {
        let text = self.fams[fam].1.get(idx);
        ctx.case_text(&text);
        check_tokens(&text, ctx);
    }
    fn static_coverage(&self) -> Value {
        json!({"char_alphabet": ALPHABET, "pieces": PIECES})
    }
}

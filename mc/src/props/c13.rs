//! C13 — syntax errors are rejected and attributed to the line they occur on.
use super::c02::{shape_block, shape_to_tsb, Shape};
use crate::engine::space::Space;
use crate::engine::*;
use crate::refmodel::grammar::{lines, render};
use serde_json::{json, Value};
use std::rc::Rc;

pub const DEF: PropDef = PropDef {
    id: "C13",
    level: "exploration",
    rule: "(valid program) x (statement position) x (context-independent syntax fault): (1) 22 hand-written contexts (first/last line, after blank lines, after a two-line comment, after two-line strings with and without suffix, inside if / else / nested loops / function bodies, with and without final newline) x the fault catalogue; (2) every block-nesting shape up to 5 (thorough 7) nodes x every simple-statement position x the fault catalogue; (3) every shape x every block header x header faults; fault catalogue = statements with the last required operand removed, with a required keyword removed, two statements joined on one line, an invalid identifier, an unterminated string, an unterminated comment; oracle: parse returns Err and the rendered message names the line on which the offending or missing token lies (known by construction); non-trivial = all cases; distinct = distinct text",
    assumptions: &["only faults whose effect does not depend on the surrounding program are injected, so the expected line is known by construction", "the error message format `Parse error (line N): ...` is the observation interface"],
    build,
    exhaustive: true,
};

/// faulty statement lines (none of them is a valid statement in any context)
pub const FAULTS: &[&str] = &[
    // (a) last required operand removed
    "put 1 into", "say", "shout", "let x be", "let x be with", "x is", "x says", "build x", "knock x", "turn x", "turn up", "rock", "roll",
    "cut", "cut x into", "cut x into y with", "join", "cast", "listen to", "give back", "return", "send", "say x plus", "say x at", "say not",
    "say x is greater than", "say x is as big as", "say x and", "say fun taking", "fun taking", "fun taking 1,", "put 1", "let x at be 1",
    "rock x with", "rock x like", "roll x into", "say roll", "put x at into y", "say -",
    // (a') the last element of a list is missing after its separator word
    "rock x with 4, 5, and", "let x be with 1, 2, and", "say 1 plus 2, and", "fun taking 1, and", "say fun taking 1, 2 &", "rock x with 1 &", "rock x with 1, 2 'n'", "fun takes k and", "fun takes k, and", "say 1 plus 2, and\nsay 3",
    // (d3) a keyword glued to a digit or underscore: one invalid word, not a keyword and a number
    "say1", "shout5", "put1 into x", "let x be1", "say x plus1", "say x at0", "rock x with1", "give back1", "say not1", "say 1 and2", "cast x with16", "say_1", "put 1 into_x", "say x is1",
    // (a3) a poetic literal made of separators only
    "x is ,", "x was, ,", "rock x like ,", "x's,", "x is .", "x is . ,",
    // (a'') a poetic literal that ends in a free-standing hyphen
    "x is a -", "x is cold without a -", "rock x like a -", "the zed's a lovely -",
    // (b) required keyword removed
    "put 1 x", "let x 5", "take it to top", "take it the top", "take to the top", "say x is greater y", "say x is as big y", "say x is as y",
    "break it", "knock x up", "build x down", "x 5", "the is 5", "my", "put 1 into the",
    // (c) two statements on one line
    "say 1 say 2", "put 1 into x say x", "build x up say x", "listen listen", "break continue", "roll x rock x", "say x put x into y",
    "continue say 1", "listen to x listen", "turn up x turn down y", "give back 1 give back 2",
    // (d) invalid identifiers
    "a1 is 5", "x_y is 5", "_x is 5", "say a1", "put 1 into x_y", "build a1 up", "say 1.2.3", "x is 5 plus 1x",
    // (d') non-letters outside ASCII (superscript, currency sign, emoji, non-ASCII digit, middle dot, section sign, fraction) at the end, in the middle and at the start of a word
    "x² is 5", "x€ is 5", "x😀 is 5", "x٣ is 5", "x·y is 5", "x§ is 5", "x½ is 5", "say x²", "say ca€sh", "say x😀y", "put 1 into x٣", "build x§ up", "the x² is 5", "Zed Y€d is 5",
    // (d'') the noun of a common name is held to the same rule
    "the x1 is 5", "say my a1", "put 1 into your x_y", "the 5 is 3", "say the 5", "build the a1 up", "an ² is 1", "my x€ is 5",
    "€x is 5", "say ²x", "put 1 into 😀x", "say é€", "say İ²", "x is 5 plus y²", "say x at y€", "fun taking x²", "rock x with y😀",
    // (e) unterminated string, (f) unterminated comment
    "\"abc", "say \"abc", "put \"abc into x", "(abc", "say 1 (abc", "say (abc",
    // stray tokens where a statement must start
    "else 1", ", say 1", ". say 1", "and 1", "is 5", "at 0", "with 1", "taking 1", "up", "5", "\"s\"", "true", "not x", "plus 1", "& 1", "'n' 1", "as big as", "than x", "into x", "back", "top", "like x",
];

/// two operands with no operator between them, in every statement that takes an expression
pub fn juxtaposed_faults() -> Vec<String> {
    const A: &[&str] = &["x", "5", "\"s\"", "true", "it", "fun taking 1", "x at 0", "the zed", "mysterious"];
    const B: &[&str] = &["y", "5", "\"t\"", "nothing", "it", "0.5", "the yod", "empty"];
    let mut v = Vec::new();
    for a in A {
        for b in B {
            v.push(format!("say {} {}", a, b));
            v.push(format!("put {} {} into z", a, b));
            v.push(format!("rock z with {} {}", a, b));
            v.push(format!("say 1 plus {} {}", a, b));
            v.push(format!("give back {} {}", a, b));
        }
    }
    v
}

pub const HEADER_FAULTS: &[(&str, &[&str])] = &[("if", &["if", "if c is", "if c c", "if else"]), ("while", &["while", "while c and", "while c c"]), ("until", &["until", "until not", "until c c"]), ("takes", &["@ takes", "@ takes k,", "@ takes 5", "@ takes k k", "takes k", "@ takes k and"])];

/// (prefix, suffix, final newline after the faulty line?)
pub const CONTEXTS: &[(&str, &str, bool)] = &[
    ("", "", true),
    ("", "", false),
    ("", "say 9\n", true),
    ("say 1\n", "say 9\n", true),
    ("say 1\n", "", false),
    ("\n\nsay 1\n\n", "say 9\n", true),
    ("(a\ncomment)\nsay 1\n", "say 9\n", true),
    ("put \"a\nb\" into y\n", "say 9\n", true),
    ("say \"a\nb\" is 5\nsay (a\nb) 1\n", "say 9\n", true),
    ("y is \"a\nb\"'s 5\n", "say 9\n", true),
    ("if c\n", "\nsay 9\n", true),
    ("if c\nsay 1\nelse\n", "\nsay 9\n", true),
    ("while c\nif d\n", "\n\nsay 9\n", true),
    ("fun takes k\n", "\nsay 9\n", true),
    ("fun takes k\nwhile k\nsay 1\n", "", false),
    ("x says it's (all) \"good\"\n", "say 9\n", true),
    // closing delimiter as the first character of its line; several line breaks in one token
    ("(a\n)\nsay 1\n", "say 9\n", true),
    ("say \"a\n\"\n", "say 9\n", true),
    ("(a\n\n\nb)\nput \"\n\n\" into y\n", "say 9\n", true),
    ("(\n)say 1 (\n\n) (b\n)\n", "say 9\n", true),
    // CR LF line ends, a comment and noise on the line before
    ("say 1\r\nsay 2\r\n", "say 9\r\n", true),
    ("say 1 (c) ! ;\n(d)\n", "say 9\n", true),
];

/// faults spanning two lines: (text, line offset of the offending token)
pub const MULTILINE_FAULTS: &[(&str, u32)] = &[
    ("cut \"a\nb\"'s", 1),
    ("cut \"a\nb\"'re", 1),
    ("join (a\nb) \"s\"'s", 1),
    ("say \"a\nb\" say 2", 1),
    ("say (a\nb) 1 say 2", 1),
    ("say \"a\nb\"'s", 1),
    ("put \"a\nb\"'s 5 into", 1),
    ("cast (a\n\nb) 5's", 2),
    // a statement on the line of else
    ("if c\nsay 1\nelse say 2", 2),
    ("if c\nsay 1\nelse put 1 into x", 2),
    ("if c\nelse say 2", 1),
    ("if c\nsay 1\nelse if c", 2),
];

pub struct C13 {
    shapes: Space<Vec<Shape>>,
    /// per shape: rendered text and the (line index, kind) of replaceable lines
    stmt_prefix: Rc<Vec<u64>>,
    header_prefix: Rc<Vec<u64>>,
}

fn shape_text(s: &[Shape]) -> Option<String> {
    let mut c = 0;
    let (t, _) = lines(&shape_to_tsb(s, &mut c))?;
    Some(render(&t))
}

fn stmt_lines(text: &str) -> Vec<usize> {
    text.split('\n').enumerate().filter(|(_, l)| l.starts_with("say ")).map(|(i, _)| i).collect()
}

fn header_lines(text: &str) -> Vec<(usize, usize)> {
    // (line index, header kind index)
    text.split('\n')
        .enumerate()
        .filter_map(|(i, l)| {
            let first = l.split(' ').next().unwrap_or("");
            if first == "if" {
                Some((i, 0))
            } else if first == "while" {
                Some((i, 1))
            } else if first == "until" {
                Some((i, 2))
            } else if l.contains(" takes ") {
                Some((i, 3))
            } else {
                None
            }
        })
        .collect()
}

fn build(tier: Tier) -> Box<dyn Check> {
    let mut memo = std::collections::HashMap::new();
    let shapes = Space::union((1..=tier.pick(5, 7)).map(|n| shape_block(n, 3, &mut memo)).collect());
    let mut sp = vec![0u64];
    let mut hp = vec![0u64];
    for s in shapes.iter() {
        let (ns, nh) = match shape_text(&s) {
            Some(t) => (stmt_lines(&t).len() as u64 * FAULTS.len() as u64, header_lines(&t).iter().map(|(_, k)| HEADER_FAULTS[*k].1.len() as u64).sum::<u64>()),
            None => (0, 0),
        };
        sp.push(sp.last().unwrap() + ns);
        hp.push(hp.last().unwrap() + nh);
    }
    Box::new(C13 { shapes, stmt_prefix: Rc::new(sp), header_prefix: Rc::new(hp) })
}

fn locate(prefix: &[u64], idx: u64) -> (usize, u64) {
    let p = match prefix.binary_search(&idx) {
        Ok(mut p) => {
            while prefix[p + 1] == prefix[p] {
                p += 1;
            }
            p
        }
        Err(p) => p - 1,
    };
    (p, idx - prefix[p])
}

fn replace_line(text: &str, line: usize, with: &str) -> String {
    let mut ls: Vec<&str> = text.split('\n').collect();
    ls[line] = with;
    ls.join("\n")
}

impl C13 {
    /// (text, expected line, description of the fault)
    fn case(&self, fam: usize, idx: u64) -> (String, u32, String) {
        match fam {
            0 => {
                let c = (idx / FAULTS.len() as u64) as usize;
                let f = FAULTS[(idx % FAULTS.len() as u64) as usize];
                let (pre, suf, nl) = CONTEXTS[c];
                let line = 1 + pre.matches('\n').count() as u32;
                (format!("{}{}{}{}", pre, f, if nl { "\n" } else { "" }, suf), line, f.to_string())
            }
            5 => {
                let jf = juxtaposed_faults();
                let c = (idx / jf.len() as u64) as usize;
                let f = &jf[(idx % jf.len() as u64) as usize];
                let (pre, suf, nl) = CONTEXTS[c];
                let line = 1 + pre.matches('\n').count() as u32;
                (format!("{}{}{}{}", pre, f, if nl { "\n" } else { "" }, suf), line, f.to_string())
            }
            4 => {
                // far lines: the fault sits on line 255..65537
                let ks = [254usize, 255, 256, 65535, 65536];
                let nf = FAULTS.len() as u64;
                let k = ks[(idx / (2 * nf)) as usize];
                let kind = (idx / nf) % 2;
                let f = FAULTS[(idx % nf) as usize];
                let pre = if kind == 0 { "\n".repeat(k) } else { format!("({})\n", "\n".repeat(k - 1)) };
                (format!("{}{}\nsay 9\n", pre, f), k as u32 + 1, f.to_string())
            }
            3 => {
                let c = (idx / MULTILINE_FAULTS.len() as u64) as usize;
                let (f, off) = MULTILINE_FAULTS[(idx % MULTILINE_FAULTS.len() as u64) as usize];
                let (pre, suf, nl) = CONTEXTS[c];
                let line = 1 + pre.matches('\n').count() as u32 + off;
                (format!("{}{}{}{}", pre, f, if nl { "\n" } else { "" }, suf), line, f.to_string())
            }
            1 => {
                let (s, k) = locate(&self.stmt_prefix, idx);
                let text = shape_text(&self.shapes.get(s as u64)).unwrap();
                let sl = stmt_lines(&text);
                let line = sl[(k / FAULTS.len() as u64) as usize];
                let f = FAULTS[(k % FAULTS.len() as u64) as usize];
                (replace_line(&text, line, f), line as u32 + 1, f.to_string())
            }
            _ => {
                let (s, mut k) = locate(&self.header_prefix, idx);
                let text = shape_text(&self.shapes.get(s as u64)).unwrap();
                for (line, kind) in header_lines(&text) {
                    let fs = HEADER_FAULTS[kind].1;
                    if (k as usize) < fs.len() {
                        let name = text.split('\n').nth(line).unwrap().split(' ').next().unwrap().to_string();
                        let f = fs[k as usize].replace('@', &name);
                        return (replace_line(&text, line, &f), line as u32 + 1, f);
                    }
                    k -= fs.len() as u64;
                }
                unreachable!()
            }
        }
    }
}

impl Check for C13 {
    fn families(&self) -> Vec<(String, u64)> {
        vec![
            ("contexts x faults".into(), (CONTEXTS.len() * FAULTS.len()) as u64),
            ("shapes x statement position x faults".into(), *self.stmt_prefix.last().unwrap()),
            ("shapes x header x header faults".into(), *self.header_prefix.last().unwrap()),
            ("contexts x two-line faults".into(), (CONTEXTS.len() * MULTILINE_FAULTS.len()) as u64),
            ("far lines x faults".into(), (5 * 2 * FAULTS.len()) as u64),
            ("contexts x juxtaposed operands".into(), (CONTEXTS.len() * juxtaposed_faults().len()) as u64),
        ]
    }
    fn describe(&self, fam: usize, idx: u64) -> Value {
        let (text, line, f) = self.case(fam, idx);
        if text.len() > 600 {
            let n = text.chars().count();
            return json!({"text": format!("…({} bytes, {} line breaks)…{}", text.len(), text.matches('\n').count(), text.chars().skip(n - 60).collect::<String>()), "fault": f, "expected_line": line});
        }
        json!({"text": text, "fault": f, "expected_line": line})
    }
    fn run_case(&self, fam: usize, idx: u64, ctx: &mut Ctx) {
        let (text, line, f) = self.case(fam, idx);
        ctx.case_text(&text);
        ctx.nontrivial();
        match rrss::frontend::parser::parse(&text) {
            Ok(p) => {
                ctx.observe_str("accepted");
                ctx.violation("accepted", format!("a program with the syntax fault {:?} on line {} was accepted — text {:?} tree {:?}", f, line, text, crate::refmodel::rast::program(&p)));
            }
            Err(e) => {
                let msg = e.to_string();
                ctx.observe_str(&msg);
                // the line is read from the error value; the rendered message must name the same line
                let loc_line = match &e.loc {
                    rrss::frontend::parser::ParseErrorLocation::Token(t) => t.range.start().line,
                    rrss::frontend::parser::ParseErrorLocation::Line(n) => *n,
                };
                let said = format!("line {}", line);
                let names_line = msg.to_lowercase().match_indices(&said).any(|(i, _)| !msg[i + said.len()..].starts_with(|c: char| c.is_ascii_digit()));
                if loc_line != line || !names_line {
                    ctx.violation("wrong-line", format!("fault {:?} is on line {} but the error is located on line {} and says {:?} — text {:?}", f, line, loc_line, msg, crate::engine::orch::middle_out(&text, 60, 200)));
                }
                let code = msg.splitn(2, "): ").nth(1).unwrap_or("").split(|c: char| c == '`' || c == ',').next().unwrap_or("").trim().to_string();
                ctx.cover("error_kinds", &code);
            }
        }
    }
    fn static_coverage(&self) -> Value {
        json!({"faults": FAULTS, "header_faults": HEADER_FAULTS.iter().map(|(k, f)| json!({"header": k, "faults": f})).collect::<Vec<_>>(), "contexts": CONTEXTS.len()})
    }
}

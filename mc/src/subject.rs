//! Thin wrappers around the public API of rrss (the system under test). Nothing here catches
//! panics: a panic propagates to the worker's catch_unwind and is reported as a violation.
use rrss::frontend::ast::Program;
use rrss::frontend::parser::parse;

pub struct ExecResult {
    pub parse_error: Option<String>,
    pub stdout: Vec<u8>,
    /// Ok or the rendered runtime error
    pub result: Result<(), String>,
}

impl ExecResult {
    pub fn stdout_str(&self) -> String {
        String::from_utf8_lossy(&self.stdout).into_owned()
    }
    pub fn observe(&self) -> String {
        match (&self.parse_error, &self.result) {
            (Some(e), _) => format!("parse-error:{}", e),
            (None, Ok(())) => format!("ok|{}", self.stdout_str()),
            (None, Err(e)) => format!("error:{}|{}", e, self.stdout_str()),
        }
    }
}

pub fn exec_program(p: &Program, input: &[u8]) -> (Vec<u8>, Result<(), String>) {
    let mut out = Vec::new();
    let r = rrss::exec::exec_using(input, &mut out, p);
    (out, r.map_err(|e| e.to_string()))
}

pub fn exec_text(text: &str, input: &[u8]) -> ExecResult {
    match parse(text) {
        Err(e) => ExecResult { parse_error: Some(e.to_string()), stdout: Vec::new(), result: Ok(()) },
        Ok(p) => {
            let (stdout, result) = exec_program(&p, input);
            ExecResult { parse_error: None, stdout, result }
        }
    }
}

/// Ok(debug rendering of the tree) or Err(rendered parse error)
pub fn parse_render(text: &str) -> Result<String, String> {
    match parse(text) {
        Ok(p) => Ok(format!("{:?}", p)),
        Err(e) => Err(e.to_string()),
    }
}

//! RAst -> rrss AST (all AST fields are public), with dummy source positions. Used to hand the
//! visitor framework trees that the parser would never produce (empty else blocks, functions
//! without parameters, poetic literals with arbitrary element sequences).
use super::rast::*;
use rrss::frontend::ast as a;
use rrss::frontend::source_range::{SourceLocation, SourceRange};
use std::sync::Arc;

pub fn rng(line: u32) -> SourceRange {
    SourceRange::from(((line, 0), (line, 1)))
}

fn wr<T>(x: T, line: u32) -> a::WithRange<T> {
    a::WithRange(x, rng(line))
}

pub fn name(n: &Name) -> a::VariableName {
    match n {
        Name::Simple(s) => a::VariableName::Simple(a::SimpleIdentifier(s.clone())),
        Name::Common(p, w) => a::VariableName::Common(a::CommonIdentifier(p.clone(), w.clone())),
        Name::Proper(ws) => a::VariableName::Proper(a::ProperIdentifier(ws.clone())),
    }
}

fn ident(i: &Ident) -> a::Identifier {
    match i {
        Ident::Name(n) => a::Identifier::VariableName(name(n)),
        Ident::Pronoun => a::Identifier::Pronoun,
    }
}

fn lit(l: &Lit) -> a::LiteralExpression {
    match l {
        Lit::Mysterious => a::LiteralExpression::Mysterious,
        Lit::Null => a::LiteralExpression::Null,
        Lit::Bool(b) => a::LiteralExpression::Boolean(*b),
        Lit::Num(n) => a::LiteralExpression::Number(*n),
        Lit::Str(s) => a::LiteralExpression::String(s.clone()),
    }
}

pub fn binop(o: BinOp) -> a::BinaryOperator {
    use a::BinaryOperator as B;
    match o {
        BinOp::Plus => B::Plus,
        BinOp::Minus => B::Minus,
        BinOp::Times => B::Multiply,
        BinOp::Over => B::Divide,
        BinOp::And => B::And,
        BinOp::Or => B::Or,
        BinOp::Nor => B::Nor,
        BinOp::Eq => B::Eq,
        BinOp::Ne => B::NotEq,
        BinOp::Gt => B::Greater,
        BinOp::Ge => B::GreaterEq,
        BinOp::Lt => B::Less,
        BinOp::Le => B::LessEq,
    }
}

pub fn prim(p: &Prim, line: u32) -> a::PrimaryExpression {
    match p {
        Prim::Lit(l) => a::PrimaryExpression::Literal(wr(lit(l), line)),
        Prim::Ident(i) => a::PrimaryExpression::Identifier(wr(ident(i), line)),
        Prim::Sub(x, i) => a::PrimaryExpression::ArraySubscript(a::ArraySubscript { array: Box::new(prim(x, line)), subscript: Box::new(prim(i, line)) }),
        Prim::Call(n, args) => a::PrimaryExpression::FunctionCall(a::FunctionCall { name: wr(name(n), line), args: args.iter().map(|e| expr(e, line)).collect() }),
        Prim::Pop(x) => a::PrimaryExpression::ArrayPop(Box::new(a::ArrayPopExpr { array: prim(x, line) })),
    }
}

pub fn expr(e: &Expr, line: u32) -> a::Expression {
    match e {
        Expr::Prim(p) => a::Expression::PrimaryExpression(prim(p, line)),
        Expr::Bin(op, l, rs) => a::Expression::BinaryExpression(a::BinaryExpression { operator: binop(*op), lhs: Box::new(expr(l, line)), rhs: Box::new(elist(rs, line)) }),
        Expr::Un(op, x) => a::Expression::UnaryExpression(a::UnaryExpression {
            operator: match op {
                UnOp::Neg => a::UnaryOperator::Minus,
                UnOp::Not => a::UnaryOperator::Not,
            },
            operand: Box::new(expr(x, line)),
        }),
    }
}

pub fn elist(es: &[Expr], line: u32) -> a::ExpressionList {
    a::ExpressionList { first: expr(&es[0], line), rest: es[1..].iter().map(|e| expr(e, line)).collect() }
}

fn lhs(l: &Lhs, line: u32) -> a::AssignmentLHS {
    match l {
        Lhs::Ident(i) => a::AssignmentLHS::Identifier(wr(ident(i), line)),
        Lhs::Sub(x, i) => a::AssignmentLHS::ArraySubscript(a::ArraySubscript { array: Box::new(prim(x, line)), subscript: Box::new(prim(i, line)) }),
    }
}

pub fn pelems(es: &[PElem]) -> a::PoeticNumberLiteral {
    a::PoeticNumberLiteral {
        elems: es
            .iter()
            .map(|e| match e {
                PElem::Word(w) => a::PoeticNumberLiteralElem::Word(w.clone()),
                PElem::Suffix(w) => a::PoeticNumberLiteralElem::WordSuffix(w.clone()),
                PElem::Dot => a::PoeticNumberLiteralElem::Dot,
            })
            .collect(),
    }
}

/// an empty statement list becomes Block::Empty
pub fn block(b: &[Stmt], line: &mut u32) -> a::Block {
    if b.is_empty() {
        a::Block::Empty(SourceLocation::new(*line, 0))
    } else {
        a::Block::NonEmpty(b.iter().map(|s| stmt(s, line)).collect())
    }
}

pub fn stmt(s: &Stmt, line: &mut u32) -> a::Statement {
    *line += 1;
    let l = *line;
    use a::Statement as S;
    match s {
        Stmt::Assign { dest, op, value } => S::Assignment(a::Assignment { dest: lhs(dest, l), value: a::AssignmentRHS::ExpressionList(elist(value, l)), operator: op.map(binop) }),
        Stmt::PoeticNum { dest, rhs } => S::PoeticAssignment(a::PoeticAssignment::Number(a::PoeticNumberAssignment {
            dest: lhs(dest, l),
            rhs: match rhs {
                PoeticRhs::Expr(e) => a::PoeticNumberAssignmentRHS::Expression(expr(e, l)),
                PoeticRhs::Lit(es) => a::PoeticNumberAssignmentRHS::PoeticNumberLiteral(pelems(es)),
            },
        })),
        Stmt::PoeticStr { dest, text } => S::PoeticAssignment(a::PoeticAssignment::String(a::PoeticStringAssignment { dest: lhs(dest, l), rhs: text.clone() })),
        Stmt::If { cond, then, els } => {
            let c = expr(cond, l);
            let t = block(then, line);
            let e = els.as_ref().map(|e| block(e, line));
            S::If(a::If { condition: c, then_block: t, else_block: e })
        }
        Stmt::While { cond, body } => {
            let c = expr(cond, l);
            S::While(a::While { condition: c, block: block(body, line) })
        }
        Stmt::Until { cond, body } => {
            let c = expr(cond, l);
            S::Until(a::Until { condition: c, block: block(body, line) })
        }
        Stmt::Inc { dest, n } => S::Inc(a::Inc { dest: wr(ident(dest), l), amount: *n as isize }),
        Stmt::Dec { dest, n } => S::Dec(a::Dec { dest: wr(ident(dest), l), amount: *n as isize }),
        Stmt::Input { dest } => S::Input(a::Input {
            dest: match dest {
                Some(d) => a::InputDest::Some(lhs(d, l)),
                None => a::InputDest::None(SourceLocation::new(l, 0)),
            },
        }),
        Stmt::Output(e) => S::Output(a::Output { value: expr(e, l) }),
        Stmt::Mutation { op, operand, dest, param } => S::Mutation(a::Mutation {
            operator: match op {
                MutOp::Cut => a::MutationOperator::Cut,
                MutOp::Join => a::MutationOperator::Join,
                MutOp::Cast => a::MutationOperator::Cast,
            },
            operand: prim(operand, l),
            dest: dest.as_ref().map(|d| lhs(d, l)),
            param: param.as_ref().map(|p| expr(p, l)),
        }),
        Stmt::Round { dir, operand } => S::Rounding(a::Rounding {
            direction: match dir {
                Dir::Up => a::RoundingDirection::Up,
                Dir::Down => a::RoundingDirection::Down,
                Dir::Nearest => a::RoundingDirection::Nearest,
            },
            operand: expr(operand, l),
        }),
        Stmt::Continue => S::Continue(a::Continue(rng(l))),
        Stmt::Break => S::Break(a::Break(rng(l))),
        Stmt::Push { array, value } => S::ArrayPush(a::ArrayPush {
            array: prim(array, l),
            value: value.as_ref().map(|v| match v {
                PushRhs::List(es) => a::ArrayPushRHS::ExpressionList(elist(es, l)),
                PushRhs::Lit(es) => a::ArrayPushRHS::PoeticNumberLiteral(pelems(es)),
            }),
        }),
        Stmt::Pop { array, dest } => S::ArrayPop(a::ArrayPop { expr: a::ArrayPopExpr { array: prim(array, l) }, dest: dest.as_ref().map(|d| lhs(d, l)) }),
        Stmt::Return(e) => S::Return(a::Return { value: expr(e, l) }),
        Stmt::Function { name: n, params, body } => {
            let nm = wr(name(n), l);
            let ps = params.iter().map(|p| wr(name(p), l)).collect();
            S::Function(a::Function { name: nm, data: Arc::new(a::FunctionData { params: ps, body: block(body, line) }) })
        }
        Stmt::Call(n, args) => S::FunctionCall(a::FunctionCall { name: wr(name(n), l), args: args.iter().map(|e| expr(e, l)).collect() }),
    }
}

/// one top-level block holding all statements; every statement gets its own line number
pub fn program(p: &[Stmt]) -> a::Program {
    let mut line = 0;
    a::Program { code: vec![block(p, &mut line)] }
}

//! Orchestrator: shards the case space over worker processes of both build configurations,
//! survives worker deaths, compares the configurations chunk by chunk, confirms violations by
//! re-execution, applies the known-findings file, writes replays and the evidence file.
use super::*;
use std::collections::{BTreeMap, BTreeSet, HashMap, VecDeque};
use std::io::{BufRead, BufReader};
use std::path::{Path, PathBuf};
use std::process::{Command, Stdio};
use std::sync::{Arc, Mutex};
use std::time::Instant;

/// root of the verification tree (the directory holding ./check); /verif unless ./check says otherwise
pub fn verif_dir() -> String {
    std::env::var("VERIF_ROOT").unwrap_or_else(|_| "/verif".to_string())
}
const MAX_VIOLATIONS: usize = 12;

#[derive(Clone, Debug)]
pub struct Found {
    pub g: u64,
    pub config: String,
    pub kind: String,
    pub detail: String,
}

#[derive(Clone)]
struct Job {
    config: &'static str,
    shard: u64,
    start_after: Option<u64>,
}

#[derive(Default)]
struct ConfigResult {
    chunk_hash: HashMap<u64, (u64, u64)>,
    counters: BTreeMap<String, u64>,
    sets: BTreeMap<String, BTreeSet<String>>,
    notes: BTreeSet<String>,
    evaluated: u64,
    nontrivial: u64,
    outcomes: BTreeSet<u64>,
    stopped: bool,
}

struct Shared {
    queue: VecDeque<Job>,
    results: HashMap<&'static str, ConfigResult>,
    found: Vec<Found>,
    machinery_errors: Vec<String>,
    incomplete: bool,
}

pub fn bin_for(config: &str) -> PathBuf {
    let exe = std::env::current_exe().expect("current_exe");
    let target = exe.parent().unwrap().parent().unwrap();
    match config {
        "checked" => target.join("debug").join("mc"),
        _ => target.join("release").join("mc"),
    }
}

struct WorkerRun {
    lines: Vec<String>,
    status: std::process::ExitStatus,
}

fn run_worker(config: &str, args: &[String]) -> std::io::Result<WorkerRun> {
    let mut child = Command::new(bin_for(config))
        .args(args)
        .stdin(Stdio::null())
        .stdout(Stdio::piped())
        .stderr(Stdio::piped())
        .spawn()?;
    let stdout = child.stdout.take().unwrap();
    let stderr = child.stderr.take().unwrap();
    let eh = std::thread::spawn(move || {
        let mut s = String::new();
        let _ = std::io::Read::read_to_string(&mut BufReader::new(stderr), &mut s);
        s
    });
    let mut lines = Vec::new();
    for l in BufReader::new(stdout).split(b'\n') {
        match l {
            Ok(b) => lines.push(String::from_utf8_lossy(&b).into_owned()),
            Err(_) => break,
        }
    }
    let status = child.wait()?;
    let err = eh.join().unwrap_or_default();
    if !err.trim().is_empty() {
        // keep the tail of stderr for diagnostics (sanitizer reports, abort messages)
        let tail: String = err.chars().rev().take(2000).collect::<String>().chars().rev().collect();
        lines.push(format!("ERR\t{}", serde_json::to_string(&tail).unwrap()));
    }
    Ok(WorkerRun { lines, status })
}

fn describe_status(st: &std::process::ExitStatus) -> String {
    use std::os::unix::process::ExitStatusExt;
    if let Some(sig) = st.signal() {
        format!("killed by signal {}", sig)
    } else {
        format!("exit status {}", st.code().unwrap_or(-1))
    }
}

fn unjson(s: &str) -> String {
    serde_json::from_str::<String>(s).unwrap_or_else(|_| s.to_string())
}

fn absorb(res: &mut ConfigResult, found: &mut Vec<Found>, config: &str, lines: &[String]) -> (bool, Option<u64>, String) {
    // returns (done, last announced g, stderr tail)
    let mut done = false;
    let mut announced = None;
    let mut errtail = String::new();
    for l in lines {
        let mut it = l.splitn(4, '\t');
        match it.next() {
            Some("H") => {
                let k: u64 = it.next().unwrap_or("0").parse().unwrap_or(0);
                let h = u64::from_str_radix(it.next().unwrap_or("0"), 16).unwrap_or(0);
                let n: u64 = it.next().unwrap_or("0").parse().unwrap_or(0);
                res.chunk_hash.insert(k, (h, n));
            }
            Some("P") => {}
            Some("V") => {
                let g: u64 = it.next().unwrap_or("0").parse().unwrap_or(0);
                let kind = it.next().unwrap_or("?").to_string();
                let detail = unjson(it.next().unwrap_or("\"\""));
                found.push(Found { g, config: config.to_string(), kind, detail });
            }
            Some("C") => {
                let key = it.next().unwrap_or("?").to_string();
                let n: u64 = it.next().unwrap_or("0").parse().unwrap_or(0);
                *res.counters.entry(key).or_default() += n;
            }
            Some("S") => {
                let set = it.next().unwrap_or("?").to_string();
                let m = unjson(it.next().unwrap_or("\"\""));
                res.sets.entry(set).or_default().insert(m);
            }
            Some("T") => {
                res.notes.insert(unjson(it.next().unwrap_or("\"\"")));
            }
            Some("N") => {
                res.evaluated += it.next().unwrap_or("0").parse::<u64>().unwrap_or(0);
                res.nontrivial += it.next().unwrap_or("0").parse::<u64>().unwrap_or(0);
            }
            Some("O") => {
                if res.outcomes.len() < 2_000_000 {
                    res.outcomes.insert(u64::from_str_radix(it.next().unwrap_or("0"), 16).unwrap_or(0));
                }
            }
            Some("@") => {
                announced = it.next().and_then(|s| s.parse().ok());
            }
            Some("ERR") => errtail = unjson(it.next().unwrap_or("\"\"")),
            Some("DONE") => done = true,
            Some("STOP") => res.stopped = true,
            _ => {}
        }
    }
    (done, announced, errtail)
}

pub struct RunOptions {
    pub prop: &'static PropDef,
    pub tier: Tier,
    pub seed: u64,
    pub jobs: usize,
    pub configs: Vec<&'static str>,
}

fn chunk_of_shard_after(shard: u64, nshards: u64, g: u64) -> u64 {
    // first chunk of this shard that contains a case > g
    let c0 = (g + 1) / CHUNK;
    let mut k = c0 - (c0 % nshards) + shard;
    if k < c0 {
        k += nshards;
    }
    k
}

pub fn run(opts: RunOptions) -> i32 {
    let t0 = Instant::now();
    let prop = opts.prop;
    let check = (prop.build)(opts.tier);
    let layout = Layout::new(check.families());
    if layout.total == 0 {
        eprintln!("machinery error: empty case space for {}", prop.id);
        return 2;
    }
    for c in &opts.configs {
        if !bin_for(c).exists() {
            eprintln!("machinery error: missing harness binary {}", bin_for(c).display());
            return 2;
        }
    }
    let nchunks = layout.chunks();
    let nshards = (opts.jobs as u64).min(nchunks).max(1);
    let track_hashes = layout.total <= 30_000_000;
    let tmpdir = PathBuf::from(verif_dir()).join("target").join("tmp").join(format!("{}-{}-{}", prop.id, opts.tier.name(), std::process::id()));
    std::fs::create_dir_all(&tmpdir).ok();

    let mut queue = VecDeque::new();
    for s in 0..nshards {
        // VERIF_SEED only rotates which shard starts first
        let shard = (s + opts.seed) % nshards;
        for c in &opts.configs {
            queue.push_back(Job { config: c, shard, start_after: None });
        }
    }
    let mut results = HashMap::new();
    for c in &opts.configs {
        results.insert(*c, ConfigResult::default());
    }
    let shared = Arc::new(Mutex::new(Shared { queue, results, found: Vec::new(), machinery_errors: Vec::new(), incomplete: false }));
    let tier_name = opts.tier.name().to_string();
    let mut handles = Vec::new();
    for _ in 0..opts.jobs {
        let shared = shared.clone();
        let tier_name = tier_name.clone();
        let tmpdir = tmpdir.clone();
        let pid = prop.id;
        handles.push(std::thread::spawn(move || loop {
            let job = {
                let mut s = shared.lock().unwrap();
                if s.found.len() >= MAX_VIOLATIONS {
                    if !s.queue.is_empty() {
                        s.incomplete = true;
                        s.queue.clear();
                    }
                    None
                } else {
                    s.queue.pop_front()
                }
            };
            let job = match job {
                Some(j) => j,
                None => break,
            };
            let mut args = vec![
                "worker".to_string(),
                pid.to_string(),
                tier_name.clone(),
                job.shard.to_string(),
                nshards.to_string(),
            ];
            if let Some(sa) = job.start_after {
                args.push("--start-after".into());
                args.push(sa.to_string());
            }
            if track_hashes {
                args.push("--hashes".into());
                args.push(tmpdir.join(format!("h-{}-{}-{}", job.config, job.shard, job.start_after.map_or(0, |x| x + 1))).to_string_lossy().into_owned());
            }
            let run = match run_worker(job.config, &args) {
                Ok(r) => r,
                Err(e) => {
                    shared.lock().unwrap().machinery_errors.push(format!("cannot spawn worker: {}", e));
                    break;
                }
            };
            let mut s = shared.lock().unwrap();
            let s = &mut *s;
            let before = s.found.len();
            let res = s.results.get_mut(job.config).unwrap();
            let (done, _, errtail) = absorb(res, &mut s.found, job.config, &run.lines);
            if done && run.status.success() {
                continue;
            }
            // the worker died: hang (exit 4, V line present) or abort / signal
            let hang_g = s.found[before..].iter().filter(|f| f.kind == "hang").map(|f| f.g).last();
            let culprit = if let Some(g) = hang_g {
                Some(g)
            } else {
                // find the first chunk of this shard that was not completed, re-run it announcing
                let res = s.results.get(job.config).unwrap();
                let mut k = match job.start_after {
                    Some(sa) => chunk_of_shard_after(job.shard, nshards, sa),
                    None => job.shard,
                };
                while k < nchunks && res.chunk_hash.contains_key(&k) {
                    k += nshards;
                }
                if k >= nchunks {
                    s.machinery_errors.push(format!(
                        "worker {} shard {} failed ({}) after completing all its chunks: {}",
                        job.config,
                        job.shard,
                        describe_status(&run.status),
                        errtail
                    ));
                    None
                } else {
                    let mut a = vec![
                        "worker".to_string(),
                        pid.to_string(),
                        tier_name.clone(),
                        job.shard.to_string(),
                        nshards.to_string(),
                        "--only-chunk".into(),
                        k.to_string(),
                        "--announce".into(),
                    ];
                    if let Some(sa) = job.start_after {
                        a.push("--start-after".into());
                        a.push(sa.to_string());
                    }
                    match run_worker(job.config, &a) {
                        Ok(r2) => {
                            let mut scratch = ConfigResult::default();
                            let mut f2 = Vec::new();
                            let (done2, announced, err2) = absorb(&mut scratch, &mut f2, job.config, &r2.lines);
                            if done2 && r2.status.success() {
                                s.machinery_errors.push(format!(
                                    "worker {} shard {} died ({}) but chunk {} re-ran cleanly (not reproducible): {}",
                                    job.config, job.shard, describe_status(&run.status), k, errtail
                                ));
                                None
                            } else if let Some(g) = f2.iter().filter(|f| f.kind == "hang").map(|f| f.g).last() {
                                s.found.extend(f2.into_iter().filter(|f| f.kind == "hang"));
                                Some(g)
                            } else if let Some(g) = announced {
                                s.found.push(Found {
                                    g,
                                    config: job.config.to_string(),
                                    kind: "abort".into(),
                                    detail: format!(
                                        "{} build: worker process {} while running this case; stderr tail: {}",
                                        job.config,
                                        describe_status(&r2.status),
                                        err2.trim()
                                    ),
                                });
                                Some(g)
                            } else {
                                s.machinery_errors.push(format!("worker {} died before announcing a case: {}", job.config, err2));
                                None
                            }
                        }
                        Err(e) => {
                            s.machinery_errors.push(format!("cannot spawn worker: {}", e));
                            None
                        }
                    }
                }
            };
            if let Some(g) = culprit {
                s.queue.push_back(Job { config: job.config, shard: job.shard, start_after: Some(g) });
            }
        }));
    }
    for h in handles {
        h.join().ok();
    }
    let mut shared = Arc::try_unwrap(shared).ok().expect("threads done").into_inner().unwrap();

    // ---- differential between the build configurations, chunk by chunk
    let mut divergent_chunks = Vec::new();
    if opts.configs.len() == 2 && shared.found.len() < MAX_VIOLATIONS {
        let a = &shared.results[opts.configs[0]];
        let b = &shared.results[opts.configs[1]];
        for (k, (h, n)) in &a.chunk_hash {
            if let Some((h2, n2)) = b.chunk_hash.get(k) {
                if h != h2 || n != n2 {
                    divergent_chunks.push(*k);
                }
            }
        }
        divergent_chunks.sort();
    }
    for k in divergent_chunks.iter().take(4) {
        let mut dumps: Vec<HashMap<u64, (String, String)>> = Vec::new();
        for c in &opts.configs {
            let a = vec![
                "worker".to_string(),
                prop.id.to_string(),
                tier_name.clone(),
                "0".into(),
                "1".into(),
                "--only-chunk".into(),
                k.to_string(),
                "--dump".into(),
            ];
            let mut m = HashMap::new();
            if let Ok(r) = run_worker(c, &a) {
                for l in &r.lines {
                    let mut it = l.splitn(4, '\t');
                    if it.next() == Some("D") {
                        let g: u64 = it.next().unwrap_or("0").parse().unwrap_or(0);
                        let h = it.next().unwrap_or("").to_string();
                        let obs = unjson(it.next().unwrap_or("\"\""));
                        m.insert(g, (h, obs));
                    }
                }
            }
            dumps.push(m);
        }
        let mut gs: Vec<&u64> = dumps[0].keys().collect();
        gs.sort();
        let mut any = false;
        for g in gs {
            if let (Some(x), Some(y)) = (dumps[0].get(g), dumps[1].get(g)) {
                if x.0 != y.0 {
                    any = true;
                    if shared.found.iter().any(|f| f.g == *g) {
                        continue; // already reported (e.g. a panic in one configuration)
                    }
                    shared.found.push(Found {
                        g: *g,
                        config: "both".into(),
                        kind: "config-divergence".into(),
                        detail: format!(
                            "observable result differs between builds: {}={:?} {}={:?}",
                            opts.configs[0],
                            truncate(&x.1, 600),
                            opts.configs[1],
                            truncate(&y.1, 600)
                        ),
                    });
                    break;
                }
            }
        }
        if !any {
            shared.machinery_errors.push(format!("chunk {} hashes differ between builds but the per-case dump does not (nondeterministic harness?)", k));
        }
    }

    // ---- confirm each violation by re-execution of that single case
    shared.found.sort_by(|a, b| (a.g, &a.config, &a.kind).cmp(&(b.g, &b.config, &b.kind)));
    shared.found.dedup_by(|a, b| a.g == b.g && a.config == b.config && a.kind == b.kind);
    let known = load_known(prop.id);
    let mut reported = 0usize;
    let mut known_hits: BTreeMap<String, u64> = BTreeMap::new();
    let mut unconfirmed = 0usize;
    let mut slow_judged_alone = 0u64;
    let replay_dir = PathBuf::from(verif_dir()).join("replays").join(prop.id);
    let mut seen_signatures: BTreeSet<String> = BTreeSet::new();
    for f in shared.found.iter().take(MAX_VIOLATIONS * 2) {
        let (fam, idx) = layout.locate(f.g);
        let desc = check.describe(fam, idx);
        let confirm_cfgs: Vec<&str> = if f.config == "both" { opts.configs.clone() } else { vec![if f.config == "checked" { "checked" } else { "release" }] };
        let mut confirmed = f.kind == "config-divergence";
        let mut completed_clean = !confirm_cfgs.is_empty();
        if !confirmed {
            for c in &confirm_cfgs {
                let (kinds, _obs, status) = run_case_subprocess(c, prop.id, &tier_name, fam, idx);
                if !(status == "ok" && kinds.is_empty()) {
                    completed_clean = false;
                }
                if kinds.iter().any(|k| k == &f.kind) || (f.kind == "abort" && status == "signal") || (f.kind == "hang" && status == "hang") {
                    confirmed = true;
                }
            }
        }
        if !confirmed && f.kind == "hang" && completed_clean {
            // The worker's CPU watchdog fired (a heavy case on a loaded machine), but the same case, run
            // alone in a fresh process under the same watchdog, returned and its oracle raised nothing:
            // the case is judged by that execution. Not a verdict against the code, not a machinery error.
            slow_judged_alone += 1;
            println!("note: case {} exceeded the CPU watchdog inside a worker and was judged by its re-execution in a fresh process (completed, no violation)", f.g);
            continue;
        }
        if !confirmed {
            unconfirmed += 1;
            shared.machinery_errors.push(format!("violation at case {} ({}) did not reproduce on re-execution: {}", f.g, f.kind, f.detail));
            continue;
        }
        let case_text = desc.get("text").and_then(|v| v.as_str()).map(|s| s.to_string()).unwrap_or_else(|| desc.to_string());
        if let Some(kf) = known.iter().find(|k| k.matches(&f.kind, &case_text, &f.detail)) {
            *known_hits.entry(kf.what.clone()).or_default() += 1;
            continue;
        }
        // one replay per distinct (kind, case)
        let sig = format!("{}|{}", f.kind, case_text);
        if !seen_signatures.insert(sig) {
            continue;
        }
        std::fs::create_dir_all(&replay_dir).ok();
        let path = replay_dir.join(format!("{}-{}-{}.json", opts.tier.name(), f.kind, f.g));
        let rec = json!({
            "property": prop.id,
            "tier": opts.tier.name(),
            "family": layout.fams[fam].0,
            "family_index": fam,
            "index": idx,
            "global_index": f.g,
            "config": f.config,
            "kind": f.kind,
            "detail": f.detail,
            "case": desc,
            "replay_cmd": format!("./check replay {}", path.display()),
        });
        std::fs::write(&path, serde_json::to_string_pretty(&rec).unwrap()).ok();
        println!("VIOLATION property={} replay={}", prop.id, path.display());
        println!("  kind={} config={} case={}", f.kind, f.config, middle_out(&case_text, 60, 260));
        println!("  {}", truncate(&f.detail, 1200));
        reported += 1;
    }
    for (what, n) in &known_hits {
        println!("KNOWN-FINDING: property={} {} ({} occurrence(s) in this run)", prop.id, what, n);
    }

    // ---- evidence
    let wall = t0.elapsed().as_secs_f64();
    let rel = opts.configs.last().copied().unwrap_or("release");
    let mut distinct_nontrivial = shared.results[rel].nontrivial;
    let mut distinct_measured = false;
    if track_hashes {
        let mut all: Vec<u64> = Vec::new();
        if let Ok(rd) = std::fs::read_dir(&tmpdir) {
            for e in rd.flatten() {
                let name = e.file_name().to_string_lossy().into_owned();
                if name.starts_with(&format!("h-{}-", rel)) {
                    if let Ok(bytes) = std::fs::read(e.path()) {
                        for c in bytes.chunks_exact(8) {
                            all.push(u64::from_le_bytes(c.try_into().unwrap()));
                        }
                    }
                }
            }
        }
        all.sort_unstable();
        all.dedup();
        if !all.is_empty() || shared.results[rel].nontrivial == 0 {
            distinct_nontrivial = all.len() as u64;
            distinct_measured = true;
        }
    }
    std::fs::remove_dir_all(&tmpdir).ok();
    let evaluations: u64 = opts.configs.iter().map(|c| shared.results[c].evaluated).sum();
    if opts.configs.iter().any(|c| shared.results[c].stopped) {
        shared.incomplete = true;
    }
    let complete = !shared.incomplete
        && shared.machinery_errors.is_empty()
        && opts.configs.iter().all(|c| shared.results[c].evaluated == layout.total);
    let mut samples = Vec::new();
    {
        let mut picks: Vec<u64> = Vec::new();
        for (i, (_, n)) in layout.fams.iter().enumerate() {
            if *n == 0 {
                continue;
            }
            let off = layout.offs[i];
            picks.push(off + mix(opts.seed, i as u64) % n);
            picks.push(off + n - 1);
        }
        picks.truncate(12);
        for g in picks {
            let (fam, idx) = layout.locate(g);
            samples.push(json!({"family": layout.fams[fam].0, "index": idx, "case": check.describe(fam, idx)}));
        }
    }
    let mut coverage = serde_json::Map::new();
    coverage.insert("evaluations".into(), json!(evaluations));
    coverage.insert("cases_in_space".into(), json!(layout.total));
    coverage.insert("distinct_nontrivial".into(), json!(distinct_nontrivial));
    coverage.insert(
        "distinct_nontrivial_how".into(),
        json!(if distinct_measured {
            "exact: union over all workers of the 64-bit keys of the non-trivial cases (release configuration)"
        } else {
            "count of non-trivial cases; distinct by construction of the enumeration (index -> case is injective); space too large for an exact cross-worker set"
        }),
    );
    coverage.insert("rule".into(), json!(prop.rule));
    coverage.insert("samples".into(), Value::Array(samples));
    coverage.insert("exhaustive".into(), json!(prop.exhaustive && complete));
    coverage.insert("complete_sweep".into(), json!(complete));
    coverage.insert(
        "families".into(),
        Value::Array(layout.fams.iter().map(|(n, s)| json!({"name": n, "cases": s})).collect()),
    );
    coverage.insert("configurations".into(), json!(opts.configs));
    let mut per = serde_json::Map::new();
    for c in &opts.configs {
        let r = &shared.results[c];
        per.insert(
            c.to_string(),
            json!({
                "evaluated": r.evaluated,
                "nontrivial": r.nontrivial,
                "distinct_observations": r.outcomes.len(),
                "counters": r.counters,
                "covered": r.sets.iter().map(|(k, v)| (k.clone(), json!(v))).collect::<serde_json::Map<_, _>>(),
                "notes": r.notes,
            }),
        );
    }
    coverage.insert("per_configuration".into(), Value::Object(per));
    coverage.insert("slow_cases_judged_by_reexecution".into(), json!(slow_judged_alone));
    coverage.insert("distinct_observations".into(), json!(shared.results[rel].outcomes.len()));
    coverage.insert("chunks_compared_between_configurations".into(), json!(if opts.configs.len() == 2 {
        shared.results[opts.configs[0]].chunk_hash.keys().filter(|k| shared.results[opts.configs[1]].chunk_hash.contains_key(k)).count()
    } else { 0 }));
    // promoted keys: counters named cov.<key> (minimum over configurations)
    let mut promoted: BTreeMap<String, u64> = BTreeMap::new();
    for c in &opts.configs {
        for (k, v) in &shared.results[c].counters {
            if let Some(name) = k.strip_prefix("cov.") {
                let e = promoted.entry(name.to_string()).or_insert(u64::MAX);
                *e = (*e).min(*v);
            }
        }
    }
    for (k, v) in promoted {
        coverage.insert(k, json!(v));
    }
    if let Value::Object(m) = check.static_coverage() {
        for (k, v) in m {
            coverage.insert(k, v);
        }
    }
    coverage.insert("known_findings_hit".into(), json!(known_hits));
    if !shared.machinery_errors.is_empty() {
        coverage.insert("machinery_errors".into(), json!(shared.machinery_errors));
    }
    if shared.incomplete {
        coverage.insert("caps_hit".into(), json!(format!("stopped after {} violations; remaining shards not explored", MAX_VIOLATIONS)));
    }
    let evidence = json!({
        "property_id": prop.id,
        "tier": opts.tier.name(),
        "seed": opts.seed,
        "level": prop.level,
        "coverage": Value::Object(coverage),
        "assumptions": prop.assumptions,
        "wall_s": wall,
        "violations": reported,
    });
    let evdir = PathBuf::from(verif_dir()).join("evidence");
    std::fs::create_dir_all(&evdir).ok();
    let evpath = evdir.join(format!("{}.json", prop.id));
    if let Err(e) = std::fs::write(&evpath, serde_json::to_string_pretty(&evidence).unwrap() + "\n") {
        eprintln!("machinery error: cannot write evidence {}: {}", evpath.display(), e);
        return 2;
    }
    println!(
        "{} {}: {} cases x {} configuration(s), {} evaluations, {} distinct non-trivial, {} violation(s), {} known finding(s), {:.1}s",
        prop.id,
        opts.tier.name(),
        layout.total,
        opts.configs.len(),
        evaluations,
        distinct_nontrivial,
        reported,
        known_hits.len(),
        wall
    );
    if reported > 0 {
        return 1;
    }
    if !shared.machinery_errors.is_empty() || unconfirmed > 0 {
        for e in &shared.machinery_errors {
            eprintln!("machinery error: {}", truncate(e, 2000));
        }
        return 2;
    }
    if !complete && known_hits.is_empty() {
        eprintln!("machinery error: sweep incomplete ({} of {} cases evaluated per configuration)", shared.results[rel].evaluated, layout.total);
        return 2;
    }
    0
}

/// head … tail of a long text (the interesting part of a generated program is usually its end)
pub fn middle_out(s: &str, head: usize, tail: usize) -> String {
    let n = s.chars().count();
    if n <= head + tail + 1 {
        return s.to_string();
    }
    let h: String = s.chars().take(head).collect();
    let t: String = s.chars().skip(n - tail).collect();
    format!("{}…{}", h, t)
}

pub fn truncate(s: &str, n: usize) -> String {
    if s.chars().count() <= n {
        s.to_string()
    } else {
        let t: String = s.chars().take(n).collect();
        format!("{}…", t)
    }
}

/// run a single case in a subprocess; returns (violation kinds, observation, status)
pub fn run_case_subprocess(config: &str, prop: &str, tier: &str, fam: usize, idx: u64) -> (Vec<String>, String, String) {
    let args = vec!["case".to_string(), prop.to_string(), tier.to_string(), fam.to_string(), idx.to_string()];
    match run_worker(config, &args) {
        Ok(r) => {
            use std::os::unix::process::ExitStatusExt;
            let mut kinds = Vec::new();
            let mut obs = String::new();
            for l in &r.lines {
                let mut it = l.splitn(3, '\t');
                match it.next() {
                    Some("VK") => kinds.push(it.next().unwrap_or("").to_string()),
                    Some("OBS") => obs = unjson(it.next().unwrap_or("\"\"")),
                    Some("V") => {
                        let _g = it.next();
                        if let Some(rest) = it.next() {
                            kinds.push(rest.split('\t').next().unwrap_or("").to_string());
                        }
                    }
                    _ => {}
                }
            }
            let status = if r.status.signal().is_some() {
                "signal"
            } else if r.status.code() == Some(4) {
                "hang"
            } else if r.status.code() == Some(0) {
                "ok"
            } else {
                "exit"
            };
            (kinds, obs, status.to_string())
        }
        Err(_) => (vec![], String::new(), "spawn-failed".into()),
    }
}

pub struct KnownFinding {
    pub kind: String,
    pub input: Option<String>,
    pub input_prefix: Option<String>,
    pub what: String,
}

impl KnownFinding {
    fn matches(&self, kind: &str, case_text: &str, _detail: &str) -> bool {
        if self.kind != kind {
            return false;
        }
        if let Some(i) = &self.input {
            return i == case_text;
        }
        if let Some(p) = &self.input_prefix {
            return case_text.starts_with(p.as_str());
        }
        false
    }
}

pub fn load_known(prop: &str) -> Vec<KnownFinding> {
    let path = Path::new(&verif_dir()).join("known_findings.json");
    let mut out = Vec::new();
    if let Ok(s) = std::fs::read_to_string(path) {
        if let Ok(v) = serde_json::from_str::<Value>(&s) {
            if let Some(arr) = v.get("known").and_then(|a| a.as_array()) {
                for e in arr {
                    if e.get("property").and_then(|p| p.as_str()) != Some(prop) {
                        continue;
                    }
                    out.push(KnownFinding {
                        kind: e.get("kind").and_then(|x| x.as_str()).unwrap_or("").to_string(),
                        input: e.get("input").and_then(|x| x.as_str()).map(|s| s.to_string()),
                        input_prefix: e.get("input_prefix").and_then(|x| x.as_str()).map(|s| s.to_string()),
                        what: e.get("what").and_then(|x| x.as_str()).unwrap_or("").to_string(),
                    });
                }
            }
        }
    }
    out
}

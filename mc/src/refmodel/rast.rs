//! Position-free mirror of the rrss syntax tree, and the total converter rrss AST -> RAst.
//! The top-level list of blocks is flattened into one statement list (where a blank line happens
//! to split `Program.code` is layout, not tree); nested block structure is kept exactly.
use rrss::frontend::ast as a;

#[derive(Clone, Debug, PartialEq, Eq, Hash, PartialOrd, Ord)]
pub enum Name {
    Simple(String),
    Common(String, String),
    Proper(Vec<String>),
}

impl Name {
    /// identity of the variable: kind + lowercased parts
    pub fn key(&self) -> String {
        match self {
            Name::Simple(s) => format!("s:{}", s.to_lowercase()),
            Name::Common(p, w) => format!("c:{} {}", p.to_lowercase(), w.to_lowercase()),
            Name::Proper(ws) => format!("p:{}", ws.iter().map(|w| w.to_lowercase()).collect::<Vec<_>>().join(" ")),
        }
    }
    pub fn text(&self) -> String {
        match self {
            Name::Simple(s) => s.clone(),
            Name::Common(p, w) => format!("{} {}", p, w),
            Name::Proper(ws) => ws.join(" "),
        }
    }
}

#[derive(Clone, Debug, PartialEq)]
pub enum Ident {
    Name(Name),
    Pronoun,
}

#[derive(Clone, Debug)]
pub enum Lit {
    Mysterious,
    Null,
    Bool(bool),
    Num(f64),
    Str(String),
}

impl PartialEq for Lit {
    fn eq(&self, o: &Lit) -> bool {
        match (self, o) {
            (Lit::Mysterious, Lit::Mysterious) | (Lit::Null, Lit::Null) => true,
            (Lit::Bool(a), Lit::Bool(b)) => a == b,
            (Lit::Num(a), Lit::Num(b)) => a.to_bits() == b.to_bits(),
            (Lit::Str(a), Lit::Str(b)) => a == b,
            _ => false,
        }
    }
}

#[derive(Clone, Copy, Debug, PartialEq, Eq, Hash)]
pub enum BinOp {
    Plus,
    Minus,
    Times,
    Over,
    And,
    Or,
    Nor,
    Eq,
    Ne,
    Gt,
    Ge,
    Lt,
    Le,
}

#[derive(Clone, Copy, Debug, PartialEq, Eq, Hash)]
pub enum UnOp {
    Neg,
    Not,
}

#[derive(Clone, Debug, PartialEq)]
pub enum Prim {
    Lit(Lit),
    Ident(Ident),
    Sub(Box<Prim>, Box<Prim>),
    Call(Name, Vec<Expr>),
    Pop(Box<Prim>),
}

#[derive(Clone, Debug, PartialEq)]
pub enum Expr {
    Prim(Prim),
    /// operator, lhs, rhs list (>= 1 element)
    Bin(BinOp, Box<Expr>, Vec<Expr>),
    Un(UnOp, Box<Expr>),
}

#[derive(Clone, Debug, PartialEq)]
pub enum Lhs {
    Ident(Ident),
    Sub(Box<Prim>, Box<Prim>),
}

#[derive(Clone, Debug, PartialEq)]
pub enum PElem {
    Word(String),
    Suffix(String),
    Dot,
}

#[derive(Clone, Debug, PartialEq)]
pub enum PoeticRhs {
    Expr(Expr),
    Lit(Vec<PElem>),
}

#[derive(Clone, Debug, PartialEq)]
pub enum PushRhs {
    List(Vec<Expr>),
    Lit(Vec<PElem>),
}

#[derive(Clone, Copy, Debug, PartialEq, Eq)]
pub enum MutOp {
    Cut,
    Join,
    Cast,
}

#[derive(Clone, Copy, Debug, PartialEq, Eq)]
pub enum Dir {
    Up,
    Down,
    Nearest,
}

#[derive(Clone, Debug, PartialEq)]
pub enum Stmt {
    Assign { dest: Lhs, op: Option<BinOp>, value: Vec<Expr> },
    PoeticNum { dest: Lhs, rhs: PoeticRhs },
    PoeticStr { dest: Lhs, text: String },
    If { cond: Expr, then: Vec<Stmt>, els: Option<Vec<Stmt>> },
    While { cond: Expr, body: Vec<Stmt> },
    Until { cond: Expr, body: Vec<Stmt> },
    Inc { dest: Ident, n: i64 },
    Dec { dest: Ident, n: i64 },
    Input { dest: Option<Lhs> },
    Output(Expr),
    Mutation { op: MutOp, operand: Prim, dest: Option<Lhs>, param: Option<Expr> },
    Round { dir: Dir, operand: Expr },
    Continue,
    Break,
    Push { array: Prim, value: Option<PushRhs> },
    Pop { array: Prim, dest: Option<Lhs> },
    Return(Expr),
    Function { name: Name, params: Vec<Name>, body: Vec<Stmt> },
    Call(Name, Vec<Expr>),
}

pub type Prog = Vec<Stmt>;

// ---------------------------------------------------------------- converter

pub fn name(n: &a::VariableName) -> Name {
    match n {
        a::VariableName::Simple(s) => Name::Simple(s.0.clone()),
        a::VariableName::Common(c) => Name::Common(c.0.clone(), c.1.clone()),
        a::VariableName::Proper(p) => Name::Proper(p.0.clone()),
    }
}

pub fn ident(i: &a::Identifier) -> Ident {
    match i {
        a::Identifier::VariableName(n) => Ident::Name(name(n)),
        a::Identifier::Pronoun => Ident::Pronoun,
    }
}

pub fn lit(l: &a::LiteralExpression) -> Lit {
    match l {
        a::LiteralExpression::Mysterious => Lit::Mysterious,
        a::LiteralExpression::Null => Lit::Null,
        a::LiteralExpression::Boolean(b) => Lit::Bool(*b),
        a::LiteralExpression::Number(n) => Lit::Num(*n),
        a::LiteralExpression::String(s) => Lit::Str(s.clone()),
    }
}

pub fn binop(o: a::BinaryOperator) -> BinOp {
    use a::BinaryOperator as B;
    match o {
        B::Plus => BinOp::Plus,
        B::Minus => BinOp::Minus,
        B::Multiply => BinOp::Times,
        B::Divide => BinOp::Over,
        B::And => BinOp::And,
        B::Or => BinOp::Or,
        B::Nor => BinOp::Nor,
        B::Eq => BinOp::Eq,
        B::NotEq => BinOp::Ne,
        B::Greater => BinOp::Gt,
        B::GreaterEq => BinOp::Ge,
        B::Less => BinOp::Lt,
        B::LessEq => BinOp::Le,
    }
}

pub fn prim(p: &a::PrimaryExpression) -> Prim {
    match p {
        a::PrimaryExpression::Literal(l) => Prim::Lit(lit(&l.0)),
        a::PrimaryExpression::Identifier(i) => Prim::Ident(ident(&i.0)),
        a::PrimaryExpression::ArraySubscript(s) => Prim::Sub(Box::new(prim(&s.array)), Box::new(prim(&s.subscript))),
        a::PrimaryExpression::FunctionCall(f) => Prim::Call(name(&f.name.0), f.args.iter().map(expr).collect()),
        a::PrimaryExpression::ArrayPop(p) => Prim::Pop(Box::new(prim(&p.array))),
    }
}

pub fn expr(e: &a::Expression) -> Expr {
    match e {
        a::Expression::PrimaryExpression(p) => Expr::Prim(prim(p)),
        a::Expression::BinaryExpression(b) => Expr::Bin(binop(b.operator), Box::new(expr(&b.lhs)), elist(&b.rhs)),
        a::Expression::UnaryExpression(u) => Expr::Un(
            match u.operator {
                a::UnaryOperator::Minus => UnOp::Neg,
                a::UnaryOperator::Not => UnOp::Not,
            },
            Box::new(expr(&u.operand)),
        ),
    }
}

pub fn elist(l: &a::ExpressionList) -> Vec<Expr> {
    l.iter().map(expr).collect()
}

pub fn lhs(l: &a::AssignmentLHS) -> Lhs {
    match l {
        a::AssignmentLHS::Identifier(i) => Lhs::Ident(ident(&i.0)),
        a::AssignmentLHS::ArraySubscript(s) => Lhs::Sub(Box::new(prim(&s.array)), Box::new(prim(&s.subscript))),
    }
}

pub fn pelems(p: &a::PoeticNumberLiteral) -> Vec<PElem> {
    p.elems
        .iter()
        .map(|e| match e {
            a::PoeticNumberLiteralElem::Word(w) => PElem::Word(w.clone()),
            a::PoeticNumberLiteralElem::WordSuffix(w) => PElem::Suffix(w.clone()),
            a::PoeticNumberLiteralElem::Dot => PElem::Dot,
        })
        .collect()
}

pub fn block(b: &a::Block) -> Vec<Stmt> {
    match b {
        a::Block::Empty(_) => Vec::new(),
        a::Block::NonEmpty(v) => v.iter().map(stmt).collect(),
    }
}

pub fn stmt(s: &a::Statement) -> Stmt {
    use a::Statement as S;
    match s {
        S::Assignment(x) => Stmt::Assign {
            dest: lhs(&x.dest),
            op: x.operator.map(binop),
            value: match &x.value {
                a::AssignmentRHS::ExpressionList(l) => elist(l),
            },
        },
        S::PoeticAssignment(a::PoeticAssignment::Number(x)) => Stmt::PoeticNum {
            dest: lhs(&x.dest),
            rhs: match &x.rhs {
                a::PoeticNumberAssignmentRHS::Expression(e) => PoeticRhs::Expr(expr(e)),
                a::PoeticNumberAssignmentRHS::PoeticNumberLiteral(p) => PoeticRhs::Lit(pelems(p)),
            },
        },
        S::PoeticAssignment(a::PoeticAssignment::String(x)) => Stmt::PoeticStr { dest: lhs(&x.dest), text: x.rhs.clone() },
        S::If(x) => Stmt::If { cond: expr(&x.condition), then: block(&x.then_block), els: x.else_block.as_ref().map(block) },
        S::While(x) => Stmt::While { cond: expr(&x.condition), body: block(&x.block) },
        S::Until(x) => Stmt::Until { cond: expr(&x.condition), body: block(&x.block) },
        S::Inc(x) => Stmt::Inc { dest: ident(&x.dest.0), n: x.amount as i64 },
        S::Dec(x) => Stmt::Dec { dest: ident(&x.dest.0), n: x.amount as i64 },
        S::Input(x) => Stmt::Input { dest: x.dest.opt().map(lhs) },
        S::Output(x) => Stmt::Output(expr(&x.value)),
        S::Mutation(x) => Stmt::Mutation {
            op: match x.operator {
                a::MutationOperator::Cut => MutOp::Cut,
                a::MutationOperator::Join => MutOp::Join,
                a::MutationOperator::Cast => MutOp::Cast,
            },
            operand: prim(&x.operand),
            dest: x.dest.as_ref().map(lhs),
            param: x.param.as_ref().map(expr),
        },
        S::Rounding(x) => Stmt::Round {
            dir: match x.direction {
                a::RoundingDirection::Up => Dir::Up,
                a::RoundingDirection::Down => Dir::Down,
                a::RoundingDirection::Nearest => Dir::Nearest,
            },
            operand: expr(&x.operand),
        },
        S::Continue(_) => Stmt::Continue,
        S::Break(_) => Stmt::Break,
        S::ArrayPush(x) => Stmt::Push {
            array: prim(&x.array),
            value: x.value.as_ref().map(|v| match v {
                a::ArrayPushRHS::ExpressionList(l) => PushRhs::List(elist(l)),
                a::ArrayPushRHS::PoeticNumberLiteral(p) => PushRhs::Lit(pelems(p)),
            }),
        },
        S::ArrayPop(x) => Stmt::Pop { array: prim(&x.expr.array), dest: x.dest.as_ref().map(lhs) },
        S::Return(x) => Stmt::Return(expr(&x.value)),
        S::Function(x) => Stmt::Function {
            name: name(&x.name.0),
            params: x.data.params.iter().map(|p| name(&p.0)).collect(),
            body: block(&x.data.body),
        },
        S::FunctionCall(x) => Stmt::Call(name(&x.name.0), x.args.iter().map(expr).collect()),
    }
}

pub fn program(p: &a::Program) -> Prog {
    p.code.iter().flat_map(|b| block(b)).collect()
}

//! Reference values and the coercion tables (written as direct kind-pair rules, independent of
//! rrss::exec::val). Where the property texts leave a cell open the functions return
//! `Stop::Unspec(reason)` and the case is skipped, never judged.
use std::cmp::Ordering;

#[derive(Clone, Debug)]
pub enum V {
    Myst,
    Null,
    Bool(bool),
    Num(f64),
    Str(String),
    Arr(Arr),
}

#[derive(Clone, Debug, PartialEq, Eq, Hash, PartialOrd, Ord)]
pub enum Key {
    Myst,
    Null,
    Bool(bool),
    Str(String),
}

#[derive(Clone, Debug)]
pub struct Arr {
    pub seq: Vec<V>,
    /// insertion order kept for readability; compared as a map
    pub dict: Vec<(Key, V)>,
    /// origin id: copied with the value, replaced when this occurrence is written. Not a language
    /// notion — it only lets the explicit-state search (C06) keep apart states that differ in which
    /// occurrences a copy-on-write implementation may still share.
    pub id: u64,
}

thread_local! {
    static NEXT_ID: std::cell::Cell<u64> = std::cell::Cell::new(1);
}

pub fn fresh_id() -> u64 {
    NEXT_ID.with(|c| {
        let v = c.get();
        c.set(v + 1);
        v
    })
}

impl Default for Arr {
    fn default() -> Self {
        Arr { seq: Vec::new(), dict: Vec::new(), id: fresh_id() }
    }
}

#[derive(Clone, Debug, PartialEq)]
pub enum Stop {
    /// the program must end with a runtime error (the string is a coarse class, for reports only)
    Error(&'static str),
    /// the properties do not determine the behaviour: not judged
    Unspec(&'static str),
    /// outside "modest resources": never executed on the subject
    Budget(&'static str),
}

pub type R<T> = Result<T, Stop>;

pub const MAX_LEN: usize = 100_000;

impl V {
    pub fn kind(&self) -> &'static str {
        match self {
            V::Myst => "mysterious",
            V::Null => "null",
            V::Bool(_) => "boolean",
            V::Num(_) => "number",
            V::Str(_) => "string",
            V::Arr(_) => "array",
        }
    }
    pub fn truthy(&self) -> bool {
        match self {
            V::Myst | V::Null => false,
            V::Bool(b) => *b,
            V::Num(n) => *n != 0.0,
            V::Str(_) => true,
            V::Arr(_) => true,
        }
    }
    /// structural identity (bitwise numbers) — used by the harness, not a language operation
    pub fn same(&self, o: &V) -> bool {
        match (self, o) {
            (V::Myst, V::Myst) | (V::Null, V::Null) => true,
            (V::Bool(a), V::Bool(b)) => a == b,
            (V::Num(a), V::Num(b)) => a.to_bits() == b.to_bits() || (a.is_nan() && b.is_nan()),
            (V::Str(a), V::Str(b)) => a == b,
            (V::Arr(a), V::Arr(b)) => {
                a.seq.len() == b.seq.len()
                    && a.seq.iter().zip(&b.seq).all(|(x, y)| x.same(y))
                    && a.dict.len() == b.dict.len()
                    && a.dict.iter().all(|(k, v)| b.dict.iter().any(|(k2, v2)| k == k2 && v.same(v2)))
            }
            _ => false,
        }
    }
    /// canonical description for state keys (dictionary sorted by key)
    pub fn canon(&self) -> String {
        match self {
            V::Myst => "M".into(),
            V::Null => "N".into(),
            V::Bool(b) => format!("B{}", *b as u8),
            V::Num(n) => format!("#{:x}", n.to_bits()),
            V::Str(s) => format!("S{:?}", s),
            V::Arr(a) => {
                let mut d: Vec<String> = a.dict.iter().map(|(k, v)| format!("{:?}:{}", k, v.canon())).collect();
                d.sort();
                format!("[{}|{}]", a.seq.iter().map(|v| v.canon()).collect::<Vec<_>>().join(","), d.join(","))
            }
        }
    }
}

impl Arr {
    pub fn get_key(&self, k: &Key) -> Option<&V> {
        self.dict.iter().find(|(k2, _)| k2 == k).map(|(_, v)| v)
    }
    pub fn slot_key(&mut self, k: Key) -> &mut V {
        if let Some(p) = self.dict.iter().position(|(k2, _)| *k2 == k) {
            &mut self.dict[p].1
        } else {
            self.dict.push((k, V::Myst));
            &mut self.dict.last_mut().unwrap().1
        }
    }
}

/// canonical text of a finite number: shortest decimal that round-trips, positional notation,
/// integers without a fraction (what Rust's `{}` prints). Non-finite numbers and -0 are U-numtext.
pub fn num_text(n: f64) -> R<String> {
    if !n.is_finite() {
        return Err(Stop::Unspec("U-numtext: spelling of a non-finite number"));
    }
    if n == 0.0 && n.is_sign_negative() {
        return Err(Stop::Unspec("U-numtext: spelling of negative zero"));
    }
    Ok(format!("{}", n))
}

/// decimal numeral grammar on which every float parser agrees: [+-] digits [. digits] [e [+-] digits]
/// with at least one digit in the mantissa
pub fn plain_numeral(s: &str) -> bool {
    let b = s.as_bytes();
    let mut i = 0;
    if i < b.len() && (b[i] == b'+' || b[i] == b'-') {
        i += 1;
    }
    let mut digits = 0;
    while i < b.len() && b[i].is_ascii_digit() {
        i += 1;
        digits += 1;
    }
    if i < b.len() && b[i] == b'.' {
        i += 1;
        while i < b.len() && b[i].is_ascii_digit() {
            i += 1;
            digits += 1;
        }
    }
    if digits == 0 {
        return false;
    }
    if i < b.len() && (b[i] == b'e' || b[i] == b'E') {
        i += 1;
        if i < b.len() && (b[i] == b'+' || b[i] == b'-') {
            i += 1;
        }
        let mut ed = 0;
        while i < b.len() && b[i].is_ascii_digit() {
            i += 1;
            ed += 1;
        }
        if ed == 0 {
            return false;
        }
    }
    i == b.len()
}

/// string -> number as used by comparison and cast. Ok(Some(n)) numeric, Ok(None) not a number,
/// Err(Unspec) for texts on which float grammars disagree (inf, nan, padded numerals, hex ...)
pub fn parse_number(s: &str) -> R<Option<f64>> {
    if plain_numeral(s) {
        return Ok(Some(s.parse::<f64>().expect("plain numeral parses")));
    }
    let t = s.trim();
    let tl = t.to_ascii_lowercase();
    let core = tl.trim_start_matches(|c| c == '+' || c == '-');
    if t != s && (plain_numeral(t) || core == "inf" || core == "infinity" || core == "nan") {
        return Err(Stop::Unspec("U-numeral: padded numeral"));
    }
    if core == "inf" || core == "infinity" || core == "nan" {
        return Err(Stop::Unspec("U-numeral: inf/nan text"));
    }
    if tl.starts_with("0x") || tl.starts_with("0b") || tl.starts_with("0o") || tl.contains('_') {
        return Err(Stop::Unspec("U-numeral: radix prefix / underscore"));
    }
    Ok(None)
}

fn decay(v: &V) -> V {
    match v {
        V::Arr(a) => V::Num(a.seq.len() as f64),
        x => x.clone(),
    }
}

fn arith_coerce(a: &V, b: &V) -> (V, V) {
    match (a, b) {
        (V::Null, V::Num(_)) => (V::Num(0.0), b.clone()),
        (V::Num(_), V::Null) => (a.clone(), V::Num(0.0)),
        (V::Arr(_), _) | (_, V::Arr(_)) => (decay(a), decay(b)),
        _ => (a.clone(), b.clone()),
    }
}

fn text_for_concat(v: &V) -> R<Option<String>> {
    Ok(match v {
        V::Myst => Some("mysterious".into()),
        V::Null => Some("null".into()),
        V::Bool(b) => Some(if *b { "true" } else { "false" }.into()),
        V::Num(n) => Some(num_text(*n)?),
        V::Str(s) => Some(s.clone()),
        V::Arr(_) => None,
    })
}

pub fn plus(a: &V, b: &V) -> R<V> {
    match (a, b) {
        (V::Str(x), _) | (_, V::Str(x)) => {
            let _ = x;
            // string concatenation with the text of the other operand; arrays do not concatenate
            let ta = text_for_concat(a)?;
            let tb = text_for_concat(b)?;
            match (ta, tb) {
                (Some(x), Some(y)) => {
                    if x.len() + y.len() > MAX_LEN {
                        return Err(Stop::Budget("string too long"));
                    }
                    Ok(V::Str(x + &y))
                }
                _ => Ok(V::Myst),
            }
        }
        _ => {
            let (x, y) = arith_coerce(a, b);
            match (x, y) {
                (V::Num(x), V::Num(y)) => Ok(V::Num(x + y)),
                _ => Ok(V::Myst),
            }
        }
    }
}

pub fn minus(a: &V, b: &V) -> R<V> {
    let (x, y) = arith_coerce(a, b);
    match (x, y) {
        (V::Num(x), V::Num(y)) => Ok(V::Num(x - y)),
        _ => Ok(V::Myst),
    }
}

pub fn over(a: &V, b: &V) -> R<V> {
    let (x, y) = arith_coerce(a, b);
    match (x, y) {
        (V::Num(x), V::Num(y)) => Ok(V::Num(x / y)),
        _ => Ok(V::Myst),
    }
}

pub fn times(a: &V, b: &V) -> R<V> {
    let (x, y) = arith_coerce(a, b);
    match (x, y) {
        (V::Num(x), V::Num(y)) => Ok(V::Num(x * y)),
        (V::Str(s), V::Num(n)) => {
            if n.is_nan() || n < 0.0 {
                return Ok(V::Myst);
            }
            if n.trunc() != n {
                return Err(Stop::Unspec("U-repeat: non-integer repeat count"));
            }
            if n > 1e6 || (s.len() as f64) * n > MAX_LEN as f64 {
                return Err(Stop::Budget("string repetition too large"));
            }
            Ok(V::Str(s.repeat(n as usize)))
        }
        _ => Ok(V::Myst),
    }
}

pub fn negate(a: &V) -> R<V> {
    match a {
        V::Num(n) => Ok(V::Num(-n)),
        _ => Err(Stop::Error("negate non-number")),
    }
}

/// the pair after comparison coercion; None = incomparable (equality false, orderings false)
fn cmp_coerce(a: &V, b: &V) -> R<Option<(V, V)>> {
    use V::*;
    Ok(Some(match (a, b) {
        (Myst, Myst) | (Null, Null) | (Bool(_), Bool(_)) | (Num(_), Num(_)) | (Str(_), Str(_)) | (Arr(_), Arr(_)) => (a.clone(), b.clone()),
        (Myst, Null) | (Null, Myst) => (Null, Null),
        (Myst, Arr(_)) => (Myst, decay(b)),
        (Arr(_), Myst) => (decay(a), Myst),
        (Myst, _) | (_, Myst) => (a.clone(), b.clone()),
        (Arr(_), Null) => (decay(a), Num(0.0)),
        (Null, Arr(_)) => (Num(0.0), decay(b)),
        // one coercion step only: the repository's own `equals` unit test anchors
        // `false != []` although `false is 0`, so the length is not coerced again
        (Arr(_), _) => (decay(a), b.clone()),
        (_, Arr(_)) => (a.clone(), decay(b)),
        (Bool(_), Null) => (a.clone(), Bool(false)),
        (Null, Bool(_)) => (Bool(false), b.clone()),
        (Num(_), Null) => (a.clone(), Num(0.0)),
        (Null, Num(_)) => (Num(0.0), b.clone()),
        (Str(_), Null) => (a.clone(), Str(String::new())),
        (Null, Str(_)) => (Str(String::new()), b.clone()),
        (Num(_), Bool(_)) => (Bool(a.truthy()), b.clone()),
        (Bool(_), Num(_)) => (a.clone(), Bool(b.truthy())),
        (Str(s), Bool(_)) => (Bool(!s.is_empty()), b.clone()),
        (Bool(_), Str(s)) => (a.clone(), Bool(!s.is_empty())),
        (Str(s), Num(_)) => match parse_number(s)? {
            Some(n) => (Num(n), b.clone()),
            None => return Ok(None),
        },
        (Num(_), Str(s)) => match parse_number(s)? {
            Some(n) => (a.clone(), Num(n)),
            None => return Ok(None),
        },
    }))
}

fn struct_eq(a: &V, b: &V) -> bool {
    match (a, b) {
        (V::Myst, V::Myst) | (V::Null, V::Null) => true,
        (V::Bool(x), V::Bool(y)) => x == y,
        (V::Num(x), V::Num(y)) => x == y,
        (V::Str(x), V::Str(y)) => x == y,
        (V::Arr(x), V::Arr(y)) => {
            x.seq.len() == y.seq.len()
                && x.seq.iter().zip(&y.seq).all(|(p, q)| struct_eq(p, q))
                && x.dict.len() == y.dict.len()
                && x.dict.iter().all(|(k, v)| y.get_key(k).map_or(false, |w| struct_eq(v, w)))
        }
        _ => false,
    }
}

pub fn equals(a: &V, b: &V) -> R<bool> {
    Ok(match cmp_coerce(a, b)? {
        Some((x, y)) => struct_eq(&x, &y),
        None => false,
    })
}

/// Ok(Some(ordering)), Ok(None) = unordered (all four orderings false), Err(Error) = invalid comparison
pub fn compare(a: &V, b: &V) -> R<Option<Ordering>> {
    match cmp_coerce(a, b)? {
        None => Ok(None),
        Some((x, y)) => match (&x, &y) {
            (V::Myst, V::Myst) | (V::Null, V::Null) => Ok(Some(Ordering::Equal)),
            (V::Num(p), V::Num(q)) => Ok(p.partial_cmp(q)),
            (V::Str(p), V::Str(q)) => Ok(Some(p.as_bytes().cmp(q.as_bytes()))),
            _ => Err(Stop::Error("invalid comparison")),
        },
    }
}

pub fn inc(v: &mut V, n: i64) -> R<()> {
    if let V::Null = v {
        *v = V::Num(0.0);
    }
    match v {
        V::Num(x) => {
            *x += n as f64;
            Ok(())
        }
        V::Bool(b) => {
            if n % 2 != 0 {
                *b = !*b;
            }
            Ok(())
        }
        _ => Err(Stop::Error("increment/decrement of a non-number")),
    }
}

/// validity of a numeric index (U-index)
pub fn index_of(n: f64) -> R<usize> {
    if n.is_nan() || n < 0.0 || n.trunc() != n {
        return Err(Stop::Unspec("U-index: negative, fractional or NaN index"));
    }
    if n >= 9007199254740992.0 {
        return Err(Stop::Unspec("U-index: index >= 2^53"));
    }
    Ok(n as usize)
}

pub fn key_of(v: &V) -> R<Key> {
    match v {
        V::Myst => Ok(Key::Myst),
        V::Null => Ok(Key::Null),
        V::Bool(b) => Ok(Key::Bool(*b)),
        V::Str(s) => Ok(Key::Str(s.clone())),
        V::Arr(_) => Err(Stop::Error("array used as key")),
        V::Num(_) => unreachable!(),
    }
}

pub fn index_read(a: &V, i: &V) -> R<V> {
    match a {
        V::Str(s) => match i {
            V::Num(n) => {
                if *n >= 9007199254740992.0 && n.is_finite() || *n == f64::INFINITY {
                    // far beyond any string: nothing there
                    return Ok(V::Myst);
                }
                let k = index_of(*n)?;
                Ok(s.chars().nth(k).map_or(V::Myst, |c| V::Str(c.to_string())))
            }
            _ => Err(Stop::Error("string indexed by a non-number")),
        },
        V::Arr(arr) => match i {
            V::Num(n) => {
                if *n >= 9007199254740992.0 && n.is_finite() || *n == f64::INFINITY {
                    return Ok(V::Myst);
                }
                let k = index_of(*n)?;
                Ok(arr.seq.get(k).cloned().unwrap_or(V::Myst))
            }
            V::Arr(_) => Err(Stop::Error("array used as key")),
            k => Ok(arr.get_key(&key_of(k)?).cloned().unwrap_or(V::Myst)),
        },
        _ => Err(Stop::Error("value not indexable")),
    }
}

/// the slot `a at i` for writing; creates missing elements (mysterious) on the way
pub fn index_slot<'a>(a: &'a mut V, i: &V) -> R<&'a mut V> {
    if let V::Myst = a {
        *a = V::Arr(Arr::default());
    }
    if let V::Arr(arr) = a {
        // this occurrence is being written: it stops sharing with its copies
        arr.id = fresh_id();
    }
    match a {
        V::Arr(arr) => match i {
            V::Num(n) => {
                if n.is_finite() && *n >= 18446744073709551616.0 || *n == f64::INFINITY {
                    // saturates the machine word: no allocation can even be attempted
                    return Err(Stop::Error("index out of any possible range"));
                }
                if *n > 100_000.0 {
                    // would need a huge allocation: outside modest resources, never executed
                    return Err(Stop::Budget("index write far beyond the end"));
                }
                let k = index_of(*n)?;
                if k >= arr.seq.len() {
                    if k > 100_000 {
                        return Err(Stop::Budget("index write far beyond the end"));
                    }
                    arr.seq.resize(k + 1, V::Myst);
                }
                Ok(&mut arr.seq[k])
            }
            V::Arr(_) => Err(Stop::Error("array used as key")),
            k => Ok(arr.slot_key(key_of(k)?)),
        },
        V::Str(_) => Err(Stop::Error("string element not assignable")),
        _ => Err(Stop::Error("value not indexable")),
    }
}

pub fn array_coerce(v: &mut V) {
    match v {
        V::Arr(_) => {}
        V::Myst => *v = V::Arr(Arr::default()),
        _ => {
            let old = std::mem::replace(v, V::Myst);
            *v = V::Arr(Arr { seq: vec![old], dict: Vec::new(), id: fresh_id() });
        }
    }
}

pub fn push(v: &mut V, vals: Vec<V>) -> R<()> {
    array_coerce(v);
    if let V::Arr(a) = v {
        a.id = fresh_id();
        a.seq.extend(vals);
        if a.seq.len() > MAX_LEN {
            return Err(Stop::Budget("array too long"));
        }
    }
    Ok(())
}

pub fn pop(v: &mut V) -> R<V> {
    match v {
        V::Arr(a) => {
            a.id = fresh_id();
            Ok(if a.seq.is_empty() { V::Myst } else { a.seq.remove(0) })
        }
        _ => Err(Stop::Error("roll of a non-array")),
    }
}

// ------------------------------------------------------------------ mutations

pub fn split(v: &V, delim: Option<&V>) -> R<V> {
    let d: Option<&str> = match delim {
        None => None,
        Some(V::Str(d)) => Some(d.as_str()),
        Some(_) => {
            return match v {
                V::Str(_) => Err(Stop::Error("split delimiter is not a string")),
                _ => Err(Stop::Error("split of a non-string")),
            }
        }
    };
    match v {
        V::Str(s) => {
            if s.is_empty() {
                return Ok(V::Arr(Arr::default()));
            }
            let pieces: Vec<String> = match d {
                None | Some("") => s.chars().map(|c| c.to_string()).collect(),
                Some(d) => {
                    // left-to-right, non-overlapping, empty pieces kept
                    let mut out = Vec::new();
                    let mut rest: &str = s;
                    loop {
                        match rest.find(d) {
                            Some(p) => {
                                out.push(rest[..p].to_string());
                                rest = &rest[p + d.len()..];
                            }
                            None => {
                                out.push(rest.to_string());
                                break;
                            }
                        }
                    }
                    out
                }
            };
            Ok(V::Arr(Arr { seq: pieces.into_iter().map(V::Str).collect(), dict: Vec::new(), id: fresh_id() }))
        }
        _ => Err(Stop::Error("split of a non-string")),
    }
}

pub fn join(v: &V, delim: Option<&V>) -> R<V> {
    let a = match v {
        V::Arr(a) => a,
        _ => return Err(Stop::Error("join of a non-array")),
    };
    let d: &str = match delim {
        None => "",
        Some(V::Str(d)) => d.as_str(),
        Some(_) => return Err(Stop::Error("join delimiter is not a string")),
    };
    if !a.dict.is_empty() && (!a.seq.is_empty() || a.dict.len() >= 2) {
        return Err(Stop::Unspec("U-join-dict: position of dictionary values in a join"));
    }
    let mut parts: Vec<&str> = Vec::new();
    for x in a.seq.iter().chain(a.dict.iter().map(|(_, v)| v)) {
        match x {
            V::Str(s) => parts.push(s),
            _ => return Err(Stop::Error("join of an array with a non-string element")),
        }
    }
    Ok(V::Str(parts.join(d)))
}

pub fn cast(v: &V, param: Option<&V>) -> R<V> {
    match v {
        V::Num(n) => {
            if param.is_some() {
                return Err(Stop::Error("number-to-character cast takes no parameter"));
            }
            if !n.is_finite() || n.trunc() != *n || *n < 0.0 || *n > 1114111.0 {
                return Err(Stop::Error("not a code point"));
            }
            match char::from_u32(*n as u32) {
                Some(c) => Ok(V::Str(c.to_string())),
                None => Err(Stop::Error("not a scalar value")),
            }
        }
        V::Str(s) => match param {
            None => match parse_number(s)? {
                Some(n) => Ok(V::Num(n)),
                None => Err(Stop::Error("string is not a number")),
            },
            Some(V::Num(r)) => {
                if !r.is_finite() || r.trunc() != *r || *r < 2.0 || *r > 36.0 {
                    return Err(Stop::Error("invalid radix"));
                }
                let radix = *r as u32;
                let (neg, digits) = match s.as_bytes().first() {
                    Some(b'-') => (true, &s[1..]),
                    Some(b'+') => (false, &s[1..]),
                    _ => (false, &s[..]),
                };
                if digits.is_empty() {
                    return Err(Stop::Error("no digits"));
                }
                let mut acc: i128 = 0;
                for c in digits.chars() {
                    let d = match c.to_digit(radix) {
                        Some(d) => d as i128,
                        None => return Err(Stop::Error("invalid digit")),
                    };
                    acc = acc * radix as i128 + d;
                    if acc > (1i128 << 64) {
                        return Err(Stop::Error("integer overflow"));
                    }
                }
                let val = if neg { -acc } else { acc };
                if val < i64::MIN as i128 || val > i64::MAX as i128 {
                    return Err(Stop::Error("integer overflow"));
                }
                Ok(V::Num(val as i64 as f64))
            }
            Some(_) => Err(Stop::Error("radix is not a number")),
        },
        _ => Err(Stop::Error("cast of a value that is neither string nor number")),
    }
}

pub fn round(v: &V, dir: crate::refmodel::rast::Dir) -> R<V> {
    use crate::refmodel::rast::Dir;
    match v {
        V::Num(n) => Ok(V::Num(match dir {
            Dir::Up => n.ceil(),
            Dir::Down => n.floor(),
            Dir::Nearest => {
                if *n < 0.0 && (n - n.trunc()).abs() == 0.5 {
                    return Err(Stop::Unspec("U-round: negative tie"));
                }
                if n.is_finite() {
                    let f = n.floor();
                    let r = if n - f >= 0.5 { f + 1.0 } else { f };
                    // rounding to an integer keeps the sign (IEEE): -0.4 -> -0
                    if r == 0.0 && n.is_sign_negative() {
                        -0.0
                    } else {
                        r
                    }
                } else {
                    *n
                }
            }
        })),
        _ => Err(Stop::Error("rounding a non-number")),
    }
}

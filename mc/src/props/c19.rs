//! C19 — lint reports are complete, ordered by line, and linting never fails.
use super::{c02, c09, c18, corpus};
use crate::engine::space::Space;
use crate::engine::*;
use crate::refmodel::grammar::render;
use rrss::analysis::visit::VisitProgram;
use rrss::frontend::ast as a;
use rrss::linter::passes::{BoringAssignmentPass, MissedPronounPass};
use rrss::linter::{standard_linter, Diag};
use serde_json::{json, Value};
use std::rc::Rc;

pub const DEF: PropDef = PropDef {
    id: "C19",
    level: "exploration",
    rule: "(1) every program of the reference grammar's canonical corpus (all statement kinds in three contexts, operator chains, lists, calls), the hand-written corpus, and all degenerate-poetic / stray-control programs of C09, every constant-assignment form x target x right-hand side of C18, operator chains / lists / argument lists / subscript chains of 2..100 operands in 5 repeat patterns; (2) the mention-sequence family: 22 templates (6 of them with statements spanning lines) that place up to 4 mentions in every traversal context (assignment target and operands, subscripts, list tails, call name and arguments, function name and parameters, conditions and blocks, mutation operand / destination / parameter, consecutive statements) x every filling from {x, X, the x, y, pronoun, a call fun taking x, the variable fun, a call x taking x, thex (the letters of the x without the break), my x (another article)}; oracle: linting returns without panic in both builds, leaves the program (Debug rendering) untouched, equals the stable merge by line of the two passes run separately (pass order on ties), is identical for a second fresh linter, and the repeated-identifier diagnostics equal the reference mention rule computed by an independent field-order traversal (reported iff same spelling as the previous variable mention and not a callee name; callee names count as previous mentions; line of the mention); (3) lint histories: all ordered pairs (thorough: also triples over a subset) of 73 programs (incl. texts beginning with blank lines) linted one after the other on one fresh thread through cli::linter::lint and cli::linter::run — every result must equal what the program gives when linted alone; non-trivial = programs with at least two variable mentions / every history; distinct = distinct text",
    assumptions: &["'spells the same name' is exact spelling equality; sequences in which adjacent mentions differ only in letter case are skipped as unspecified", "a callee name counts as the previous mention for what follows and is never reported itself (the only reading under which the pinned tree satisfies the property); names used both as callee and as variable are included"],
    build,
    exhaustive: true,
};

pub const TEMPLATES: &[&str] = &[
    "put A plus B into C\nsay D\n",
    "say A at B\nsay C at D\n",
    "let A at B be C\nsay D\n",
    "rock A with B, C, D\n",
    "say A plus B, C, D\n",
    "say A taking B, C\nsay D\n",
    "A takes B, C\nsay D\n\n",
    "say A\nsay B\nsay C\nsay D\n",
    "if A\nsay B\nelse\nsay C\n\nsay D\n",
    "cut A into B with C\nturn up D\n",
    "build A up\nknock B down\nlisten to C\nroll D\n",
    "A is 5\nB is a word\nC says hi\nwhile D\nsay 1\n\n",
    "put A into B\nput C into D\n",
    "roll A into B\nrock C like a word\ngive back D\n",
    // an else after an empty then-block, a loop around it
    "if A\nelse\nsay B\nsay C\n\nsay D\n",
    "while A\nif B\nelse\nsay C\n\n\nsay D\n",
    // statements that span lines (a comment or a string with a line break inside): traversal order and line order differ
    "say A\nput B (c\nc) into C\nsay D\n",
    "put A plus B (c\nc) into C\nsay D\n",
    "cut A (c\nc) into B with C\nsay D\n",
    "let A at B (c\nc\nc) be C\nsay D\n",
    "say \"a\nb\" plus A\nput B (c\nc) into C\nsay D\n",
    "put A into B\nput C (c\nc) into D\nput 5 into A\n",
];
pub const MENTIONS: &[&str] = &["x", "X", "the x", "y", "it", "fun taking x", "fun", "x taking x", "thex", "my x"];

fn render_name(n: &a::VariableName) -> String {
    match n {
        a::VariableName::Simple(s) => format!("s:{}", s.0),
        a::VariableName::Common(c) => format!("c:{} {}", c.0, c.1),
        a::VariableName::Proper(p) => format!("p:{}", p.0.join(" ")),
    }
}

/// independent field-order traversal collecting (name, is_callee, line)
pub struct Mentions(pub Vec<(String, String, bool, u32)>);

impl Mentions {
    fn name(&mut self, n: &a::WithRange<a::VariableName>, callee: bool) {
        use rrss::linter::render::Render;
        self.0.push((render_name(&n.0), n.0.render(), callee, n.1.start().line));
    }
    fn ident(&mut self, i: &a::WithRange<a::Identifier>) {
        if let a::Identifier::VariableName(v) = &i.0 {
            use rrss::linter::render::Render;
            self.0.push((render_name(v), v.render(), false, i.1.start().line));
        }
    }
    fn prim(&mut self, p: &a::PrimaryExpression) {
        match p {
            a::PrimaryExpression::Literal(_) => {}
            a::PrimaryExpression::Identifier(i) => self.ident(i),
            a::PrimaryExpression::ArraySubscript(s) => self.subscript(s),
            a::PrimaryExpression::FunctionCall(f) => self.call(f),
            a::PrimaryExpression::ArrayPop(x) => self.prim(&x.array),
        }
    }
    fn subscript(&mut self, s: &a::ArraySubscript) {
        self.prim(&s.array);
        self.prim(&s.subscript);
    }
    fn call(&mut self, f: &a::FunctionCall) {
        self.name(&f.name, true);
        f.args.iter().for_each(|e| self.expr(e));
    }
    fn expr(&mut self, e: &a::Expression) {
        match e {
            a::Expression::PrimaryExpression(p) => self.prim(p),
            a::Expression::BinaryExpression(b) => {
                self.expr(&b.lhs);
                self.list(&b.rhs);
            }
            a::Expression::UnaryExpression(u) => self.expr(&u.operand),
        }
    }
    fn list(&mut self, l: &a::ExpressionList) {
        self.expr(&l.first);
        l.rest.iter().for_each(|e| self.expr(e));
    }
    fn lhs(&mut self, l: &a::AssignmentLHS) {
        match l {
            a::AssignmentLHS::Identifier(i) => self.ident(i),
            a::AssignmentLHS::ArraySubscript(s) => self.subscript(s),
        }
    }
    fn block(&mut self, b: &a::Block) {
        if let a::Block::NonEmpty(v) = b {
            v.iter().for_each(|s| self.stmt(s));
        }
    }
    fn stmt(&mut self, s: &a::Statement) {
        use a::Statement as S;
        match s {
            S::Assignment(x) => {
                self.lhs(&x.dest);
                match &x.value {
                    a::AssignmentRHS::ExpressionList(l) => self.list(l),
                }
            }
            S::PoeticAssignment(a::PoeticAssignment::Number(x)) => {
                self.lhs(&x.dest);
                if let a::PoeticNumberAssignmentRHS::Expression(e) = &x.rhs {
                    self.expr(e);
                }
            }
            S::PoeticAssignment(a::PoeticAssignment::String(x)) => self.lhs(&x.dest),
            S::If(x) => {
                self.expr(&x.condition);
                self.block(&x.then_block);
                if let Some(e) = &x.else_block {
                    self.block(e);
                }
            }
            S::While(x) => {
                self.expr(&x.condition);
                self.block(&x.block);
            }
            S::Until(x) => {
                self.expr(&x.condition);
                self.block(&x.block);
            }
            S::Inc(x) => self.ident(&x.dest),
            S::Dec(x) => self.ident(&x.dest),
            S::Input(x) => {
                if let Some(d) = x.dest.opt() {
                    self.lhs(d);
                }
            }
            S::Output(x) => self.expr(&x.value),
            S::Mutation(x) => {
                self.prim(&x.operand);
                if let Some(d) = &x.dest {
                    self.lhs(d);
                }
                if let Some(p) = &x.param {
                    self.expr(p);
                }
            }
            S::Rounding(x) => self.expr(&x.operand),
            S::Continue(_) | S::Break(_) => {}
            S::ArrayPush(x) => {
                self.prim(&x.array);
                if let Some(a::ArrayPushRHS::ExpressionList(l)) = &x.value {
                    self.list(l);
                }
            }
            S::ArrayPop(x) => {
                self.prim(&x.expr.array);
                if let Some(d) = &x.dest {
                    self.lhs(d);
                }
            }
            S::Return(x) => self.expr(&x.value),
            S::Function(f) => {
                self.name(&f.name, false);
                f.data.params.iter().for_each(|p| self.name(p, false));
                self.block(&f.data.body);
            }
            S::FunctionCall(f) => self.call(f),
        }
    }
    pub fn of(p: &a::Program) -> Self {
        let mut m = Mentions(Vec::new());
        p.code.iter().for_each(|b| m.block(b));
        m
    }
}

pub struct C19 {
    corpus: Rc<Vec<String>>,
    mention: Space<(usize, Vec<usize>)>,
    /// programs linted one after the other on one thread
    history_set: Rc<Vec<String>>,
    histories: Space<Vec<usize>>,
}

/// the programs histories are built from: mention templates whose first / last mentions coincide or
/// differ, constant assignments with and without suggestions, a rejected text, an empty program
fn history_set() -> Vec<String> {
    let mut v = Vec::new();
    for t in TEMPLATES {
        for f in [[0usize, 0, 0, 0], [0, 3, 0, 3], [3, 3, 3, 3], [3, 0, 0, 3]] {
            v.push(fill(t, &f));
        }
    }
    // texts that begin or end with blank / white-space-only lines (line numbers must not shift)
    for s in ["\n\nlet x be 5\nsay x\nsay x\n", "  \n\t\nput 5 into x\nsay x plus x\n", "\n", "let x be 5\nsay x plus x\n\n\n  \n", " put 5 into x\n", "\r\n\r\nput 5 into x\r\nsay x plus x\r\n"] {
        v.push(s.to_string());
    }
    for s in ["put 5 into x\n", "put -0 into x\n", "x is 5\nsay x\n", "say x\n", "say y\n", "say x at y\n", "fun taking x\n", "put \"s\" into y\n", "", "put into\n", "say 1\n"] {
        v.push(s.to_string());
    }
    v
}

fn build(tier: Tier) -> Box<dyn Check> {
    let mut texts: Vec<String> = c02::canonical_corpus().iter().map(|(t, _)| render(t)).collect();
    texts.extend(corpus::VALID.iter().map(|s| s.to_string()));
    // degenerate poetic literals and stray control flow
    let heads: Space<&'static str> = Space::of(c09::POETIC_HEADS.to_vec());
    let atoms: Space<&'static str> = Space::of(c09::POETIC_ATOMS.to_vec());
    for (h, v) in heads.product(&atoms.seq_range(0, tier.pick(2, 3)), |h, v| (h, v)).iter() {
        texts.push(format!("{}{}\nsay x\n", h, v.join(" ")));
    }
    let stray: Space<&'static str> = Space::of(c09::STRAY.to_vec());
    for v in stray.seq_range(1, 2).iter() {
        texts.push(v.concat());
    }
    // long programs: many diagnostics, lines carrying diagnostics of both passes, passes interleaved by line
    for n in [8usize, 16, 17, 20, 32, 33, 40, 64, 100] {
        let a: String = (0..n).map(|_| "let x be 5\n").collect();
        texts.push(a.clone());
        texts.push(format!("say x\n{}", a));
        let b: String = (0..n).map(|i| if i % 3 == 0 { "put 1 into y\n".to_string() } else if i % 3 == 1 { "say y plus y\n".to_string() } else { "rock y with 2\nsay x\n".to_string() }).collect();
        texts.push(b);
        let c: String = (0..n).rev().map(|i| format!("put {} into x\nsay x plus x, x\n", i)).collect();
        texts.push(c);
        texts.push(format!("fun takes k\n{}\nwhile x\n{}\n", a, (0..n).map(|_| "say x\nput 0 into x\n").collect::<String>()));
    }
    // every constant-assignment form x target x right-hand side of C18 (values with and without a poetic spelling)
    for f in c18::FORMS {
        for t in c18::TARGETS {
            for e in c18::RHS {
                texts.push(format!("{}\nsay 9\n", c18::fill(f, t, e)));
            }
        }
    }
    // operator chains and lists of n operands with repeats at every position (walkers that unroll chains into
    // fixed buffers change behaviour at 8 / 16 / 17 / 32 ...)
    for n in [2usize, 7, 8, 9, 15, 16, 17, 18, 19, 31, 32, 33, 34, 64, 65, 100] {
        for pat in [&["x", "y", "y"][..], &["x", "x", "y"], &["x", "y"], &["x"], &["y", "the zed", "the zed", "x"]] {
            let names: Vec<&str> = (0..n).map(|i| pat[i % pat.len()]).collect();
            texts.push(format!("say {}\n", names.join(" plus ")));
            texts.push(format!("say {}\nsay {}\n", names.join(" times "), names[n - 1]));
            texts.push(format!("put {} into {}\n", names.join(" minus "), names[0]));
            texts.push(format!("say 1 plus {}\n", names.join(", ")));
            texts.push(format!("rock w with {}\n", names.join(", ")));
            texts.push(format!("say fun taking {}\n", names.join(", ")));
            texts.push(format!("say {}\n", names.join(" at ")));
            texts.push(format!("if {}\nsay {}\n\n", names.join(" and "), names[n - 1]));
        }
    }
    let t: Space<usize> = Space::of((0..TEMPLATES.len()).collect());
    let m: Space<usize> = Space::of((0..MENTIONS.len()).collect());
    let hs = history_set();
    let hidx: Space<usize> = Space::of((0..hs.len()).collect());
    let small: Space<usize> = Space::of((0..hs.len()).step_by(4).collect());
    let histories = if tier == Tier::Thorough { Space::union(vec![hidx.seq_exact(2), small.seq_exact(3)]) } else { hidx.seq_exact(2) };
    Box::new(C19 { history_set: Rc::new(hs), histories, corpus: Rc::new(texts), mention: if tier == Tier::Thorough { Space::union(vec![t.product(&m.seq_exact(4), |t, v| (t, v)), t.product(&m.seq_exact(5), |t, v| (t, v))]) } else { t.product(&m.seq_exact(4), |t, v| (t, v)) } })
}

pub fn fill(t: &str, v: &[usize]) -> String {
    let mut s = String::new();
    for ch in t.chars() {
        match ch {
            'A' => s.push_str(MENTIONS[v[0]]),
            'B' => s.push_str(MENTIONS[v[1]]),
            'C' => s.push_str(MENTIONS[v[2]]),
            'D' => s.push_str(&if v.len() > 4 { format!("{} plus {}", MENTIONS[v[3]], MENTIONS[v[4]]) } else { MENTIONS[v[3]].to_string() }),
            x => s.push(x),
        }
    }
    s
}

fn diag_key(d: &Diag) -> String {
    format!("{}|{}|{:?}", d.line, d.issue, d.suggestions)
}

impl C19 {
    fn text(&self, fam: usize, idx: u64) -> String {
        if fam == 0 {
            self.corpus[idx as usize].clone()
        } else if fam == 1 {
            let (t, v) = self.mention.get(idx);
            fill(TEMPLATES[t], &v)
        } else {
            self.histories.get(idx).iter().map(|i| format!("{:?}", self.history_set[*i])).collect::<Vec<_>>().join(" then ")
        }
    }

    /// a history of lint operations on one fresh thread, through the function-style entry points: every
    /// result must equal what a fresh linter reports for that program alone
    fn history_case(&self, idx: u64, ctx: &mut Ctx) {
        let h: Vec<String> = self.histories.get(idx).iter().map(|i| self.history_set[*i].clone()).collect();
        ctx.case_text(&h.join("\u{1}"));
        ctx.nontrivial();
        let hh = h.clone();
        let run = std::thread::spawn(move || {
            let mut out: Vec<(Option<Vec<String>>, Option<String>)> = Vec::new();
            for text in &hh {
                let a = rrss::cli::linter::lint(text).ok().map(|r| r.diags.iter().map(diag_key).collect::<Vec<_>>());
                let b = rrss::cli::linter::run(text).ok().map(|o| format!("{}", o));
                out.push((a, b));
            }
            out
        })
        .join();
        let out = match run {
            Ok(o) => o,
            Err(_) => {
                ctx.violation("panic", format!("{} build: linting panicked in the history {:?}: {}", config_name(), h, crate::engine::worker::take_panic()));
                return;
            }
        };
        for (k, text) in h.iter().enumerate() {
            let tt = text.clone();
            let fresh = std::thread::spawn(move || {
                let a = rrss::frontend::parser::parse(&tt).ok().map(|p| standard_linter().run(&p).diags.iter().map(diag_key).collect::<Vec<_>>());
                let b = rrss::cli::linter::run(&tt).ok().map(|o| format!("{}", o));
                (a, b)
            })
            .join();
            let fresh = match fresh {
                Ok(f) => f,
                Err(_) => {
                    ctx.violation("panic", format!("{} build: linting {:?} alone panicked: {}", config_name(), text, crate::engine::worker::take_panic()));
                    return;
                }
            };
            ctx.observe_str(&format!("{:?}", fresh));
            if out[k] != fresh {
                ctx.violation(
                    "lint-depends-on-history",
                    format!("operation {} of the history {:?} (same thread, function-style entry points) reports {:?}, but the same program linted alone reports {:?}", k + 1, h, out[k], fresh),
                );
                return;
            }
        }
    }
}

impl Check for C19 {
    fn families(&self) -> Vec<(String, u64)> {
        vec![("corpus".into(), self.corpus.len() as u64), ("mention-sequences".into(), self.mention.len()), ("lint-histories".into(), self.histories.len())]
    }
    fn describe(&self, fam: usize, idx: u64) -> Value {
        json!({ "text": self.text(fam, idx) })
    }
    fn run_case(&self, fam: usize, idx: u64, ctx: &mut Ctx) {
        if fam == 2 {
            return self.history_case(idx, ctx);
        }
        let text = self.text(fam, idx);
        ctx.case_text(&text);
        let prog = match rrss::frontend::parser::parse(&text) {
            Ok(p) => p,
            Err(_) => {
                ctx.count("rejected_by_parser");
                ctx.observe_str("rejected");
                return;
            }
        };
        let before = format!("{:?}", prog);
        let result = standard_linter().run(&prog);
        ctx.observe_str(&format!("{}", result));
        if format!("{:?}", prog) != before {
            ctx.violation("program-modified", format!("linting changed the program {:?}", text));
        }
        // ordered by line
        if result.diags.windows(2).any(|w| w[0].line > w[1].line) {
            ctx.violation("not-ordered", format!("diagnostics are not ordered by line: {:?} — {:?}", result.diags.iter().map(|d| d.line).collect::<Vec<_>>(), text));
        }
        // equals the stable merge of the passes run separately (pass order on ties)
        let boring: Vec<Diag> = match BoringAssignmentPass.visit_program(&prog) {
            Ok(b) => builder_to_vec(b),
            Err(()) => Vec::new(),
        };
        let pronoun: Vec<Diag> = match MissedPronounPass::new().visit_program(&prog) {
            Ok(b) => builder_to_vec(b),
            Err(()) => Vec::new(),
        };
        let mut merged: Vec<&Diag> = boring.iter().chain(pronoun.iter()).collect();
        merged.sort_by_key(|d| d.line);
        let got: Vec<String> = result.diags.iter().map(diag_key).collect();
        let want: Vec<String> = merged.iter().map(|d| diag_key(d)).collect();
        if got != want {
            ctx.violation("not-the-merge-of-the-passes", format!("the linter's result differs from the passes merged by line (ties in pass order): got {:?} want {:?} — {:?}", got, want, text));
        }
        // a second fresh linter agrees
        let again = standard_linter().run(&prog);
        if again.diags.iter().map(diag_key).collect::<Vec<_>>() != got {
            ctx.violation("not-repeatable", format!("a second fresh linter reports something else — {:?}", text));
        }
        // the repeated-identifier pass against the reference mention rule
        let ms = Mentions::of(&prog);
        if ms.0.len() >= 2 {
            ctx.nontrivial();
        }
        // adjacent mentions that differ only in letter case: not judged
        let mut unspecified = false;
        for w in ms.0.windows(2) {
            if w[0].0 != w[1].0 && w[0].0.to_lowercase() == w[1].0.to_lowercase() {
                unspecified = true;
            }
        }
        if unspecified {
            ctx.count("skipped.mention rule not determined (case variants adjacent)");
            return;
        }
        let mut expected: Vec<(u32, String)> = Vec::new();
        let mut last: Option<&String> = None;
        for (key, shown, callee, line) in &ms.0 {
            if !*callee && last == Some(key) {
                expected.push((*line, shown.clone()));
            }
            last = Some(key);
        }
        let reported: Vec<(u32, String)> = pronoun
            .iter()
            .map(|d| (d.line, d.issue.split('`').nth(1).unwrap_or("").to_string()))
            .collect();
        ctx.add("repeated_identifier_diagnostics", reported.len() as u64);
        if reported != expected {
            ctx.violation("wrong-repeated-identifier-report", format!("reported (line, name) {:?} but the mention rule gives {:?} — mentions {:?} — {:?}", reported, expected, ms.0.iter().map(|m| (&m.1, m.2, m.3)).collect::<Vec<_>>(), text));
        }
    }
    fn static_coverage(&self) -> Value {
        json!({"templates": TEMPLATES, "mentions": MENTIONS})
    }
}

fn builder_to_vec(b: rrss::linter::ListBuilder<Diag>) -> Vec<Diag> {
    match b {
        rrss::linter::ListBuilder::Empty => Vec::new(),
        rrss::linter::ListBuilder::One(d) => vec![d],
        rrss::linter::ListBuilder::List(v) => v,
    }
}

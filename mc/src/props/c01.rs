//! C01 — lexing and parsing are total.
use super::{corpus, lexemes};
use crate::engine::space::{strings, Space};
use crate::engine::*;
use crate::subject;
use rrss::frontend::lexer::Lexer;
use serde_json::{json, Value};

pub const DEF: PropDef = PropDef {
    id: "C01",
    level: "exploration",
    rule: "complete enumeration of (1) all strings over a 28-symbol alphabet with one representative per lexer branch, (2) all space-joined sequences over an 83-lexeme alphabet covering every token type, (3) the full single-edit (and, thorough, bounded double-edit) lexeme neighbourhood of a corpus of valid programs, (4) a fixed nesting-depth family, (5) 41 Unicode class representatives (non-ASCII white space and look-alikes, non-ASCII digits and numerals, letters whose case mappings change length, title-case and caseless letters, combining marks, joiners, astral characters, typographic quotes) alone and in all pairs in 20 lexical positions, (6) tokens of every byte length 0..140 and around 256 / 1024 / 4096 / 65536 with a multi-byte tail (2-, 3-, 4-byte characters) in 10 token kinds an error message can quote; each text is parsed in the checked and in the release build; non-trivial = the text lexes to at least 2 tokens or contains an error token; distinct = distinct text",
    assumptions: &[
        "the checked build (debug-assertions, overflow-checks) turns every violated unsafe precondition of rrss into a panic; release-only misbehaviour is observed through the differential of the rendered result",
        "hang = a single parse burning more than 10 s of CPU",
        "texts outside the alphabets/bounds (longer strings, other characters of the same class) are not covered",
    ],
    build,
    exhaustive: true,
};

pub const CHAR_ALPHABET: &[&str] = &[
    "a", "s", "n", "r", "e", "A", "é", "1", "²", ".", ",", "'", "\"", "(", ")", "-", "_", "<", "=", "&", "+", "!", " ",
    "\n", "\u{a0}", "€", "😀", "İ",
];

#[derive(Clone)]
pub enum Edit {
    Delete(usize),
    Replace(usize, usize),
    Insert(usize, usize),
}

pub fn apply_edit(lex: &[String], e: &Edit, alphabet: &[&str]) -> Vec<String> {
    let mut v = lex.to_vec();
    match e {
        Edit::Delete(i) => {
            v.remove(*i);
        }
        Edit::Replace(i, a) => v[*i] = alphabet[*a].to_string(),
        Edit::Insert(i, a) => v.insert(*i, alphabet[*a].to_string()),
    }
    v
}

pub fn edits_of(len: usize, nalpha: usize) -> Vec<Edit> {
    let mut v = Vec::new();
    for i in 0..len {
        v.push(Edit::Delete(i));
    }
    for i in 0..len {
        for a in 0..nalpha {
            v.push(Edit::Replace(i, a));
        }
    }
    for i in 0..=len {
        for a in 0..nalpha {
            v.push(Edit::Insert(i, a));
        }
    }
    v
}

pub const SMALL_LEXEMES: &[&str] = &["x", "1", "is", "else", "\n", ",", "x's", "\"u", "a1", "(a\nb)", "taking", "at", "-", "and", "if", "it"];

fn edit_space(programs: Vec<String>) -> Space<String> {
    let mut parts = Vec::new();
    for p in programs {
        let lex = lexemes::split(&p);
        let edits = edits_of(lex.len(), lexemes::LEXEMES.len());
        let lex = std::rc::Rc::new(lex);
        let edits = std::rc::Rc::new(edits);
        let n = edits.len() as u64;
        parts.push(Space::new(n, move |i| {
            lexemes::unsplit(&apply_edit(&lex, &edits[i as usize], lexemes::LEXEMES))
        }));
    }
    Space::union(parts)
}

fn double_edit_space(programs: Vec<String>) -> Space<String> {
    let mut parts = Vec::new();
    for p in programs {
        let lex = lexemes::split(&p);
        let e1 = std::rc::Rc::new(edits_of(lex.len(), SMALL_LEXEMES.len()));
        let lex = std::rc::Rc::new(lex);
        // second edit is applied to the result of the first; enumerate over the maximal length and
        // clamp positions (a clamped duplicate costs time, never soundness)
        let e2 = std::rc::Rc::new(edits_of(lex.len() + 1, SMALL_LEXEMES.len()));
        let n1 = e1.len() as u64;
        let n2 = e2.len() as u64;
        parts.push(Space::new(n1 * n2, move |i| {
            let a = apply_edit(&lex, &e1[(i / n2) as usize], SMALL_LEXEMES);
            let e = match &e2[(i % n2) as usize] {
                Edit::Delete(p) => Edit::Delete((*p).min(a.len().saturating_sub(1))),
                Edit::Replace(p, x) => Edit::Replace((*p).min(a.len().saturating_sub(1)), *x),
                Edit::Insert(p, x) => Edit::Insert((*p).min(a.len()), *x),
            };
            if a.is_empty() {
                if let Edit::Insert(..) = e {
                } else {
                    return lexemes::unsplit(&a);
                }
            }
            lexemes::unsplit(&apply_edit(&a, &e, SMALL_LEXEMES))
        }));
    }
    Space::union(parts)
}

pub fn depth_family() -> Vec<String> {
    let mut v = Vec::new();
    for k in [1usize, 10, 100, 300] {
        v.push(format!("say {}true\n", "not ".repeat(k)));
        v.push(format!("say {}1\n", "- ".repeat(k)));
        v.push(format!("say {}x\n", "roll ".repeat(k)));
        v.push(format!("say x{}\n", " at 0".repeat(k)));
        v.push(format!("say {}1\n", "Zed taking ".repeat(k)));
        v.push(format!("say 1{}\n", " plus 1".repeat(k)));
        v.push(format!("say 1{}\n", " times 2 plus 3".repeat(k)));
        v.push(format!("say 1{}\n", " is 1".repeat(k)));
        v.push(format!("say 1{}\n", " and 1".repeat(k)));
        v.push(format!("let x{} be 1\n", " at 0".repeat(k)));
        let mut s = String::new();
        for _ in 0..k {
            s.push_str("if true\n");
        }
        s.push_str("say 1\n");
        v.push(s.clone());
        v.push(s.replace("if true", "while x"));
        let mut s = String::new();
        for _ in 0..k {
            s.push_str("if true\nsay 1\nelse\n");
        }
        s.push_str("say 2\n");
        v.push(s);
        let mut s = String::new();
        for i in 0..k {
            s.push_str(&format!("Zed takes x\nsay {}\n", i));
        }
        v.push(s);
        v.push(format!("x is {}\n", "a ".repeat(k)));
        v.push(format!("x is a{}\n", "'s".repeat(k)));
        v.push(format!("rock x with 1{}\n", ", 2".repeat(k)));
        v.push(format!("build x up{}\n", ", up".repeat(k)));
        v.push("(".repeat(k));
        v.push("\"".repeat(k));
        v.push("'".repeat(k) + "s");
        v.push("\n".repeat(k) + "else");
    }
    // far positions (lines / columns beyond 2^8 and 2^16) and long tokens
    for k in [255usize, 256, 65535, 65536, 70000] {
        v.push("\n".repeat(k) + "x a1 \"u");
        v.push(" ".repeat(k) + "x_y is's (u");
        v.push(format!("({})'s x is\nelse", "\n".repeat(k)));
        v.push(format!("say \"{}\"'s 5 a1", "é".repeat(k)));
        v.push(format!("{} is 5", "x".repeat(k)));
        v.push(format!("x is {}", "1".repeat(k)));
        v.push(format!("say {}", "9".repeat(k)));
    }
    v
}

pub struct C01 {
    fams: Vec<(String, Space<String>)>,
}

fn build(tier: Tier) -> Box<dyn Check> {
    let chars = strings(CHAR_ALPHABET, 0, tier.pick(5, 6));
    let lex = strings(lexemes::LEXEMES, 1, tier.pick(3, 4));
    // re-join with spaces: build from sequences instead of concatenation
    let lexs: Space<String> = {
        let base: Space<&'static str> = Space::of(lexemes::LEXEMES.to_vec());
        base.seq_range(1, tier.pick(3, 4)).map(|v| lexemes::join(&v))
    };
    drop(lex);
    let corpus: Vec<String> = corpus::VALID.iter().map(|s| s.to_string()).collect();
    let edits1 = edit_space(corpus.clone());
    let short: Vec<String> = corpus.iter().filter(|p| lexemes::split(p).len() <= 12).take(tier.pick(3, 12)).cloned().collect();
    let edits2 = double_edit_space(short);
    let depth = Space::of(depth_family());
    Box::new(C01 {
        fams: vec![
            ("chars".into(), chars),
            ("lexemes".into(), lexs),
            ("edit1".into(), edits1),
            ("edit2".into(), edits2),
            ("depth".into(), depth),
            ("unicode-classes".into(), Space::of(lexemes::unicode_texts())),
            ("long-multibyte-tokens".into(), Space::of(lexemes::long_multibyte_texts())),
        ],
    })
}

impl Check for C01 {
    fn families(&self) -> Vec<(String, u64)> {
        self.fams.iter().map(|(n, s)| (n.clone(), s.len())).collect()
    }
    fn describe(&self, fam: usize, idx: u64) -> Value {
        let t = self.fams[fam].1.get(idx);
        if t.len() > 400 {
            json!({"text": t, "note": "long text (depth family)"})
        } else {
            json!({ "text": t })
        }
    }
    fn run_case(&self, fam: usize, idx: u64, ctx: &mut Ctx) {
        let text = self.fams[fam].1.get(idx);
        ctx.case_text(&text);
        // token census (also exercises the lexer on its own)
        let mut ntok = 0usize;
        let mut has_err = false;
        for t in Lexer::new(&text) {
            ntok += 1;
            if t.id.is_error() {
                has_err = true;
            }
            if ntok > text.len() + 2 {
                ctx.violation("lexer-no-progress", format!("lexer produced more tokens ({}) than the text has bytes", ntok));
                break;
            }
        }
        if ntok >= 2 || has_err {
            ctx.nontrivial();
        }
        match subject::parse_render(&text) {
            Ok(tree) => {
                ctx.count("parse_ok");
                ctx.observe_str("ok");
                ctx.observe_str(&tree);
            }
            Err(msg) => {
                ctx.count("parse_err");
                if !msg.starts_with("Parse error (line ") {
                    ctx.violation("bad-message", format!("rendered parse error has no location prefix: {:?}", msg));
                }
                // which error code, for the coverage census
                let code = msg.splitn(2, "): ").nth(1).unwrap_or("").split(|c: char| c == '`' || c == ',').next().unwrap_or("").trim().to_string();
                ctx.cover("error_kinds", &code);
                ctx.observe_str("err");
                ctx.observe_str(&msg);
            }
        }
    }
    fn static_coverage(&self) -> Value {
        json!({
            "char_alphabet": CHAR_ALPHABET,
            "lexeme_alphabet_size": lexemes::LEXEMES.len(),
            "corpus_programs": corpus::VALID.len(),
        })
    }
}

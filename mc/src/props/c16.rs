//! C16 — visitors see every node exactly once, in order, and stop at the first error.
use super::c02;
use crate::engine::*;
use crate::refmodel::rast::*;
use crate::refmodel::to_ast;
use rrss::analysis::visit::{self, Combine, ExprVisitorRunner, Visit, VisitExpr, VisitProgram};
use rrss::frontend::ast as a;
use rrss::frontend::source_range::SourceRange;
use serde_json::{json, Value};
use std::rc::Rc;

pub const DEF: PropDef = PropDef {
    id: "C16",
    level: "exploration",
    rule: "programs built directly as AST values (public fields): the whole canonical corpus of the reference grammar (every statement kind with every slot filled from 14 expression shapes, operator chains, lists, calls, subscripts), every block-nesting shape up to 5 (thorough 7) nodes, plus trees the parser never produces (empty else / then / loop / function blocks, functions with 0..3 parameters, poetic literals with word / suffix / dot elements in rock and assignment); for each program every failing position k = 0..n-1 of the leaf callbacks plus 'never'; a recording visitor that overrides only the eight leaf callbacks runs through ExprVisitorRunner, its Output is the free monoid (event list); expected = reference traversal of the tree in field order; checks: returned list = side-effect log = expected; failing at k returns Err(k) unchanged with log = expected[..=k]; non-trivial = programs with at least 2 leaf events; distinct = distinct (program, k)",
    assumptions: &["the reference traversal (children in field order) is written against the RAst mirror of the public AST", "mutation operator and rounding direction callbacks belong to VisitProgram, not to the expression visitor, and are not observable through the runner"],
    build,
    exhaustive: true,
};

#[derive(Clone, Debug, PartialEq)]
pub enum Ev {
    Lit(String),
    Pronoun,
    Simple(String),
    Common(String, String),
    Proper(Vec<String>),
    Bin(String),
    Un(String),
    PElem(String),
}

#[derive(Clone, Debug, Default, PartialEq)]
pub struct Events(pub Vec<Ev>);

impl Combine for Events {
    fn combine(mut self, other: Self) -> Self {
        self.0.extend(other.0);
        self
    }
}

pub struct Recorder {
    pub log: Vec<Ev>,
    pub fail_at: Option<usize>,
}

impl Recorder {
    fn leaf(&mut self, e: Ev) -> Result<Events, usize> {
        let k = self.log.len();
        self.log.push(e.clone());
        if self.fail_at == Some(k) {
            Err(k)
        } else {
            Ok(Events(vec![e]))
        }
    }
}

impl Visit for Recorder {
    type Output = Events;
    type Error = usize;
}

impl VisitExpr for Recorder {
    fn visit_poetic_number_literal_elem(&mut self, p: &a::PoeticNumberLiteralElem) -> visit::Result<Self> {
        self.leaf(Ev::PElem(format!("{:?}", p)))
    }
    fn visit_binary_operator(&mut self, o: a::BinaryOperator) -> visit::Result<Self> {
        self.leaf(Ev::Bin(format!("{:?}", o)))
    }
    fn visit_unary_operator(&mut self, o: a::UnaryOperator) -> visit::Result<Self> {
        self.leaf(Ev::Un(format!("{:?}", o)))
    }
    fn visit_literal_expression(&mut self, e: &a::WithRange<a::LiteralExpression>) -> visit::Result<Self> {
        self.leaf(Ev::Lit(format!("{:?}", e.0)))
    }
    fn visit_pronoun(&mut self, _: SourceRange) -> visit::Result<Self> {
        self.leaf(Ev::Pronoun)
    }
    fn visit_simple_identifier(&mut self, n: a::WithRange<&a::SimpleIdentifier>) -> visit::Result<Self> {
        self.leaf(Ev::Simple(n.0 .0.clone()))
    }
    fn visit_common_identifier(&mut self, n: a::WithRange<&a::CommonIdentifier>) -> visit::Result<Self> {
        self.leaf(Ev::Common(n.0 .0.clone(), n.0 .1.clone()))
    }
    fn visit_proper_identifier(&mut self, n: a::WithRange<&a::ProperIdentifier>) -> visit::Result<Self> {
        self.leaf(Ev::Proper(n.0 .0.clone()))
    }
}

// ---------------------------------------------------------------- reference traversal (field order)

fn t_name(n: &Name, out: &mut Vec<Ev>) {
    out.push(match n {
        Name::Simple(s) => Ev::Simple(s.clone()),
        Name::Common(p, w) => Ev::Common(p.clone(), w.clone()),
        Name::Proper(ws) => Ev::Proper(ws.clone()),
    })
}
fn t_ident(i: &Ident, out: &mut Vec<Ev>) {
    match i {
        Ident::Name(n) => t_name(n, out),
        Ident::Pronoun => out.push(Ev::Pronoun),
    }
}
fn t_lit(l: &Lit, out: &mut Vec<Ev>) {
    let a = match l {
        Lit::Mysterious => a::LiteralExpression::Mysterious,
        Lit::Null => a::LiteralExpression::Null,
        Lit::Bool(b) => a::LiteralExpression::Boolean(*b),
        Lit::Num(n) => a::LiteralExpression::Number(*n),
        Lit::Str(s) => a::LiteralExpression::String(s.clone()),
    };
    out.push(Ev::Lit(format!("{:?}", a)));
}
fn t_prim(p: &Prim, out: &mut Vec<Ev>) {
    match p {
        Prim::Lit(l) => t_lit(l, out),
        Prim::Ident(i) => t_ident(i, out),
        Prim::Sub(a, i) => {
            t_prim(a, out);
            t_prim(i, out);
        }
        Prim::Call(n, args) => {
            t_name(n, out);
            args.iter().for_each(|e| t_expr(e, out));
        }
        Prim::Pop(x) => t_prim(x, out),
    }
}
fn t_expr(e: &Expr, out: &mut Vec<Ev>) {
    match e {
        Expr::Prim(p) => t_prim(p, out),
        Expr::Bin(op, l, rs) => {
            t_expr(l, out);
            out.push(Ev::Bin(format!("{:?}", to_ast::binop(*op))));
            rs.iter().for_each(|r| t_expr(r, out));
        }
        Expr::Un(op, x) => {
            out.push(Ev::Un(
                match op {
                    UnOp::Neg => "Minus",
                    UnOp::Not => "Not",
                }
                .to_string(),
            ));
            t_expr(x, out);
        }
    }
}
fn t_lhs(l: &Lhs, out: &mut Vec<Ev>) {
    match l {
        Lhs::Ident(i) => t_ident(i, out),
        Lhs::Sub(a, i) => {
            t_prim(a, out);
            t_prim(i, out);
        }
    }
}
fn t_pelems(es: &[PElem], out: &mut Vec<Ev>) {
    let lit = to_ast::pelems(es);
    for e in &lit.elems {
        out.push(Ev::PElem(format!("{:?}", e)));
    }
}
fn t_block(b: &[Stmt], out: &mut Vec<Ev>) {
    b.iter().for_each(|s| t_stmt(s, out));
}
fn t_stmt(s: &Stmt, out: &mut Vec<Ev>) {
    match s {
        Stmt::Assign { dest, op, value } => {
            t_lhs(dest, out);
            if let Some(o) = op {
                out.push(Ev::Bin(format!("{:?}", to_ast::binop(*o))));
            }
            value.iter().for_each(|e| t_expr(e, out));
        }
        Stmt::PoeticNum { dest, rhs } => {
            t_lhs(dest, out);
            match rhs {
                PoeticRhs::Expr(e) => t_expr(e, out),
                PoeticRhs::Lit(es) => t_pelems(es, out),
            }
        }
        Stmt::PoeticStr { dest, .. } => t_lhs(dest, out),
        Stmt::If { cond, then, els } => {
            t_expr(cond, out);
            t_block(then, out);
            if let Some(e) = els {
                t_block(e, out);
            }
        }
        Stmt::While { cond, body } | Stmt::Until { cond, body } => {
            t_expr(cond, out);
            t_block(body, out);
        }
        Stmt::Inc { dest, .. } | Stmt::Dec { dest, .. } => t_ident(dest, out),
        Stmt::Input { dest } => {
            if let Some(d) = dest {
                t_lhs(d, out);
            }
        }
        Stmt::Output(e) | Stmt::Return(e) => t_expr(e, out),
        Stmt::Mutation { operand, dest, param, .. } => {
            t_prim(operand, out);
            if let Some(d) = dest {
                t_lhs(d, out);
            }
            if let Some(p) = param {
                t_expr(p, out);
            }
        }
        Stmt::Round { operand, .. } => t_expr(operand, out),
        Stmt::Continue | Stmt::Break => {}
        Stmt::Push { array, value } => {
            t_prim(array, out);
            match value {
                Some(PushRhs::List(es)) => es.iter().for_each(|e| t_expr(e, out)),
                Some(PushRhs::Lit(es)) => t_pelems(es, out),
                None => {}
            }
        }
        Stmt::Pop { array, dest } => {
            t_prim(array, out);
            if let Some(d) = dest {
                t_lhs(d, out);
            }
        }
        Stmt::Function { name, params, body } => {
            t_name(name, out);
            params.iter().for_each(|p| t_name(p, out));
            t_block(body, out);
        }
        Stmt::Call(n, args) => {
            t_name(n, out);
            args.iter().for_each(|e| t_expr(e, out));
        }
    }
}

pub fn reference_traversal(p: &[Stmt]) -> Vec<Ev> {
    let mut out = Vec::new();
    t_block(p, &mut out);
    out
}

/// trees the parser never produces
fn exotic() -> Vec<Vec<Stmt>> {
    let x = || Prim::Ident(Ident::Name(Name::Simple("x".into())));
    let e = |n: f64| Expr::Prim(Prim::Lit(Lit::Num(n)));
    let say = |n: f64| Stmt::Output(e(n));
    let lit = vec![PElem::Word("abc".into()), PElem::Suffix("'s".into()), PElem::Dot, PElem::Word("de".into()), PElem::Suffix("-fg".into()), PElem::Dot];
    let mut v = vec![
        vec![Stmt::If { cond: e(1.0), then: vec![], els: Some(vec![]) }, say(2.0)],
        vec![Stmt::If { cond: e(1.0), then: vec![say(2.0)], els: Some(vec![]) }, say(3.0)],
        vec![Stmt::If { cond: e(1.0), then: vec![], els: None }, say(3.0)],
        vec![Stmt::While { cond: e(1.0), body: vec![] }, Stmt::Until { cond: e(2.0), body: vec![] }, say(3.0)],
        vec![Stmt::PoeticNum { dest: Lhs::Ident(Ident::Pronoun), rhs: PoeticRhs::Lit(lit.clone()) }],
        vec![Stmt::Push { array: x(), value: Some(PushRhs::Lit(lit.clone())) }, say(1.0)],
        vec![Stmt::PoeticNum { dest: Lhs::Sub(Box::new(x()), Box::new(Prim::Lit(Lit::Str("k".into())))), rhs: PoeticRhs::Lit(vec![]) }, say(1.0)],
        vec![],
    ];
    for np in 0..=3usize {
        let params: Vec<Name> = [Name::Simple("p".into()), Name::Common("the".into(), "q".into()), Name::Proper(vec!["Ab".into(), "Cd".into()])][..np].to_vec();
        v.push(vec![Stmt::Function { name: Name::Proper(vec!["Zed".into(), "Yod".into()]), params: params.clone(), body: vec![Stmt::Return(Expr::Prim(x()))] }, say(1.0)]);
        v.push(vec![Stmt::Function { name: Name::Simple("f".into()), params, body: vec![] }, say(1.0)]);
    }
    // nesting depth 2 with every block slot used
    v.push(vec![Stmt::Function {
        name: Name::Simple("f".into()),
        params: vec![Name::Simple("p".into())],
        body: vec![
            Stmt::If {
                cond: Expr::Bin(BinOp::And, Box::new(e(1.0)), vec![e(2.0), e(3.0)]),
                then: vec![Stmt::While { cond: e(4.0), body: vec![Stmt::Break, say(5.0)] }],
                els: Some(vec![Stmt::Until { cond: e(6.0), body: vec![Stmt::Continue, say(7.0)] }]),
            },
            say(8.0),
        ],
    }]);
    v
}

pub struct C16 {
    progs: Rc<Vec<Vec<Stmt>>>,
    prefix: Rc<Vec<u64>>,
}

fn build(tier: Tier) -> Box<dyn Check> {
    let mut progs: Vec<Vec<Stmt>> = Vec::new();
    for (_, s) in c02::canonical_corpus() {
        progs.push(s);
    }
    let mut memo = std::collections::HashMap::new();
    for n in 1..=tier.pick(5, 7) {
        for sh in c02::shape_block(n, 3, &mut memo).iter() {
            let mut c = 0;
            if let Some((_, s)) = crate::refmodel::grammar::lines(&c02::shape_to_tsb(&sh, &mut c)) {
                progs.push(s);
            }
        }
    }
    progs.extend(exotic());
    let mut prefix = vec![0u64];
    for p in &progs {
        prefix.push(prefix.last().unwrap() + reference_traversal(p).len() as u64 + 1);
    }
    Box::new(C16 { progs: Rc::new(progs), prefix: Rc::new(prefix) })
}

fn locate(prefix: &[u64], idx: u64) -> (usize, u64) {
    let p = match prefix.binary_search(&idx) {
        Ok(mut p) => {
            while prefix[p + 1] == prefix[p] {
                p += 1;
            }
            p
        }
        Err(p) => p - 1,
    };
    (p, idx - prefix[p])
}

impl Check for C16 {
    fn families(&self) -> Vec<(String, u64)> {
        vec![("program x failing position".into(), *self.prefix.last().unwrap())]
    }
    fn describe(&self, _fam: usize, idx: u64) -> Value {
        let (p, k) = locate(&self.prefix, idx);
        let n = reference_traversal(&self.progs[p]).len() as u64;
        json!({"text": format!("{:?} fail_at={}", self.progs[p], if k == n { "never".to_string() } else { k.to_string() }), "leaf_events": n})
    }
    fn run_case(&self, _fam: usize, idx: u64, ctx: &mut Ctx) {
        let (p, k) = locate(&self.prefix, idx);
        let prog = &self.progs[p];
        let expected = reference_traversal(prog);
        let n = expected.len();
        let fail_at = if k as usize == n { None } else { Some(k as usize) };
        if n >= 2 {
            ctx.nontrivial();
        }
        let ast = to_ast::program(prog);
        let mut runner = ExprVisitorRunner::with_inner(Recorder { log: Vec::new(), fail_at });
        let result = runner.visit_program(&ast);
        let rec = runner.inner();
        ctx.observe_str(&format!("{:?}|{}", result.as_ref().map(|e| e.0.len()), rec.log.len()));
        ctx.add("leaf_callbacks", rec.log.len() as u64);
        match fail_at {
            None => {
                if rec.log != expected {
                    let d = first_diff(&rec.log, &expected);
                    ctx.violation("wrong-traversal", format!("visited leaves differ from the tree in field order at event {}: visited {:?} expected {:?} — program {:?}", d, rec.log.get(d), expected.get(d), prog));
                }
                match result {
                    Ok(ev) => {
                        if ev.0 != rec.log {
                            let d = first_diff(&ev.0, &rec.log);
                            ctx.violation("wrong-fold", format!("the folded result differs from the visiting order at position {} (result {:?}, visited {:?}) — program {:?}", d, ev.0.get(d), rec.log.get(d), prog));
                        }
                    }
                    Err(e) => ctx.violation("wrong-fold", format!("walk without failing callback returned Err({})", e)),
                }
            }
            Some(k) => {
                if result != Err(k) {
                    ctx.violation("error-not-propagated", format!("callback {} failed but the walk returned {:?} — program {:?}", k, result.map(|e| e.0.len()), prog));
                }
                if rec.log[..] != expected[..=k] {
                    ctx.violation(
                        "walk-continued-after-error",
                        format!("callback {} failed; the visitor was called {} times, expected exactly {} (the prefix of the traversal) — program {:?}", k, rec.log.len(), k + 1, prog),
                    );
                }
            }
        }
    }
    fn static_coverage(&self) -> Value {
        json!({"programs": self.progs.len()})
    }
}

fn first_diff(a: &[Ev], b: &[Ev]) -> usize {
    let mut i = 0;
    while i < a.len() && i < b.len() && a[i] == b[i] {
        i += 1;
    }
    i
}

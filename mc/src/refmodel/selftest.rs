//! `./check selftest`: (1) the reference tables reproduce every kind-pair cell that the repository's
//! own unit tests (src/exec/val/tests.rs) assert — transcribed here as anchors, so the reference is
//! bound to the project's documented tables and not to one reading of the code; (2) hash-seed
//! control works (same seed => same iteration order, different seeds => different orders);
//! (3) machinery: the hand-written corpus parses, generator names are not keywords, the precedence
//! ladder agrees with hand-computed trees.
use super::rast::{BinOp, Dir};
use super::value::*;
use std::cmp::Ordering;

fn v(s: &str) -> V {
    match s {
        "M" => V::Myst,
        "N" => V::Null,
        "T" => V::Bool(true),
        "F" => V::Bool(false),
        "A0" => V::Arr(Arr::default()),
        "A1" => V::Arr(Arr { seq: vec![V::Null], dict: vec![], id: 0 }),
        "A2" => V::Arr(Arr { seq: vec![V::Null, V::Null], dict: vec![], id: 0 }),
        _ => {
            if let Some(n) = s.strip_prefix('#') {
                V::Num(match n {
                    "inf" => f64::INFINITY,
                    "-inf" => f64::NEG_INFINITY,
                    "nan" => f64::NAN,
                    x => x.parse().unwrap(),
                })
            } else if let Some(t) = s.strip_prefix('S') {
                V::Str(t.to_string())
            } else {
                panic!("bad anchor value {}", s)
            }
        }
    }
}

/// (a, b, equal?) — asserted commutatively by the repository
const EQUALS: &[(&str, &str, bool)] = &[
    ("M", "M", true), ("M", "N", true), ("M", "F", false), ("M", "#0", false), ("M", "S", false), ("M", "A0", false),
    ("N", "N", true), ("F", "F", true), ("T", "F", false), ("#1", "#1", true), ("#1", "#2", false), ("Sfoo", "Sfoo", true), ("Sfoo", "Sbar", false),
    ("A0", "A0", true), ("A1", "A0", false), ("A1", "A1", true),
    ("S0", "#0", true), ("Sten", "#0", false), ("S", "F", true), ("Sx", "T", true), ("S", "N", true), ("Sx", "N", false), ("Sx", "A0", false),
    ("#0", "F", true), ("#1", "T", true), ("#0", "N", true), ("#1", "N", false), ("#0", "A0", true), ("#1", "A1", true), ("#1", "A0", false),
    ("F", "N", true), ("T", "N", false), ("F", "A0", false), ("N", "A0", true), ("N", "A1", false),
];

/// (a, b, expected) with expected in {"less", "equal", "none", "invalid"}; "less" means a<b and not b<a
const COMPARE: &[(&str, &str, &str)] = &[
    ("M", "N", "equal"), ("M", "F", "invalid"), ("M", "#0", "invalid"), ("M", "S", "invalid"), ("M", "A0", "invalid"),
    ("F", "T", "invalid"), ("#1", "#10", "less"), ("Saardvark", "Sbar", "less"), ("S02", "S10", "less"), ("A0", "A0", "invalid"),
    ("S0", "#1", "less"), ("Sten", "#0", "none"), ("S", "F", "invalid"), ("Sx", "T", "invalid"), ("N", "Sx", "less"), ("Sx", "A0", "invalid"),
    ("#10", "F", "invalid"), ("#-1", "N", "less"), ("#-1", "A0", "less"), ("#0", "A1", "less"), ("F", "N", "invalid"), ("F", "A0", "invalid"), ("N", "A1", "less"),
];

/// (op, a, b, result) — "M" as result means the invalid combination (mysterious)
const ARITH: &[(&str, &str, &str, &str)] = &[
    ("+", "M", "N", "M"), ("+", "N", "M", "M"), ("+", "M", "F", "M"), ("+", "F", "M", "M"), ("+", "M", "#0", "M"), ("+", "#0", "M", "M"), ("+", "M", "A0", "M"), ("+", "A0", "M", "M"),
    ("+", "F", "T", "M"), ("+", "#1", "#10", "#11"), ("+", "Saardvark", "Sbar", "Saardvarkbar"), ("+", "Sbar", "Saardvark", "Sbaraardvark"), ("+", "A0", "A0", "#0"),
    ("+", "S0", "#1", "S01"), ("+", "#1", "S0", "S10"), ("+", "Sx", "F", "Sxfalse"), ("+", "Sx", "T", "Sxtrue"), ("+", "F", "Sx", "Sfalsex"), ("+", "T", "Sx", "Struex"),
    ("+", "Sx", "N", "Sxnull"), ("+", "N", "Sx", "Snullx"), ("+", "Sx", "M", "Sxmysterious"), ("+", "M", "Sx", "Smysteriousx"), ("+", "Sx", "A0", "M"), ("+", "A0", "Sx", "M"),
    ("+", "#10", "F", "M"), ("+", "F", "#10", "M"), ("+", "#-1", "N", "#-1"), ("+", "N", "#-1", "#-1"), ("+", "#1", "A0", "#1"), ("+", "#1", "A1", "#2"), ("+", "F", "N", "M"), ("+", "F", "A0", "M"),
    ("*", "M", "N", "M"), ("*", "M", "F", "M"), ("*", "M", "#0", "M"), ("*", "M", "S", "M"), ("*", "S", "M", "M"), ("*", "M", "A0", "M"), ("*", "F", "T", "M"), ("*", "#2", "#10", "#20"),
    ("*", "Saardvark", "Sbar", "M"), ("*", "A0", "A0", "#0"), ("*", "S0", "#1", "S0"), ("*", "S0", "#3", "S000"), ("*", "S0", "#0", "S"), ("*", "S0", "#-1", "M"), ("*", "#-1", "S0", "M"),
    ("*", "Sx", "F", "M"), ("*", "F", "Sx", "M"), ("*", "Sx", "N", "M"), ("*", "N", "Sx", "M"), ("*", "Sx", "A0", "S"), ("*", "Sx", "A2", "Sxx"),
    ("*", "#10", "F", "M"), ("*", "#-1", "N", "#-0"), ("*", "N", "#-1", "#-0"), ("*", "#1", "A0", "#0"), ("*", "#1", "A1", "#1"), ("*", "F", "N", "M"), ("*", "F", "A0", "M"),
    ("-", "M", "N", "M"), ("-", "M", "#0", "M"), ("-", "M", "S", "M"), ("-", "F", "T", "M"), ("-", "#2", "#10", "#-8"), ("-", "Saardvark", "Sbar", "M"), ("-", "A0", "A0", "#0"),
    ("-", "S0", "#1", "M"), ("-", "#1", "S0", "M"), ("-", "Sx", "F", "M"), ("-", "Sx", "N", "M"), ("-", "Sx", "A0", "M"), ("-", "#10", "F", "M"), ("-", "#-1", "N", "#-1"), ("-", "N", "#-1", "#1"),
    ("-", "#1", "A0", "#1"), ("-", "#1", "A1", "#0"), ("-", "F", "N", "M"), ("-", "F", "A0", "M"),
    ("/", "M", "N", "M"), ("/", "M", "#0", "M"), ("/", "F", "T", "M"), ("/", "#2", "#10", "#0.2"), ("/", "Saardvark", "Sbar", "M"), ("/", "A0", "A0", "#nan"), ("/", "S0", "#1", "M"), ("/", "#1", "S0", "M"),
    ("/", "Sx", "N", "M"), ("/", "#10", "F", "M"), ("/", "#-1", "N", "#-inf"), ("/", "N", "#-1", "#-0"), ("/", "#1", "A0", "#inf"), ("/", "#1", "A1", "#1"), ("/", "F", "N", "M"),
];

const TRUTHY: &[(&str, bool)] = &[("M", false), ("N", false), ("F", false), ("T", true), ("#0", false), ("#42", true), ("S", true), ("Sfoo", true), ("A0", true)];

fn same_loose(a: &V, b: &V) -> bool {
    // the repository's assertions use ==, for which -0 == 0
    match (a, b) {
        (V::Num(x), V::Num(y)) => x == y || (x.is_nan() && y.is_nan()),
        _ => a.same(b),
    }
}

pub fn run() -> i32 {
    let mut bad = 0;
    let mut n = 0;
    let mut fail = |what: String| {
        eprintln!("selftest FAILED: {}", what);
        bad += 1;
    };
    for (a, b, want) in EQUALS {
        for (x, y) in [(a, b), (b, a)] {
            n += 1;
            if equals(&v(x), &v(y)) != Ok(*want) {
                fail(format!("equals({}, {}) should be {}", x, y, want));
            }
        }
    }
    for (a, b, want) in COMPARE {
        n += 1;
        let ab = compare(&v(a), &v(b));
        let ba = compare(&v(b), &v(a));
        let ok = match *want {
            "equal" => ab == Ok(Some(Ordering::Equal)) && ba == Ok(Some(Ordering::Equal)),
            "less" => ab == Ok(Some(Ordering::Less)) && ba != Ok(Some(Ordering::Less)),
            "none" => ab == Ok(None) && ba == Ok(None),
            _ => matches!(ab, Err(Stop::Error(_))) && matches!(ba, Err(Stop::Error(_))),
        };
        if !ok {
            fail(format!("compare({}, {}) should be {}: got {:?} / {:?}", a, b, want, ab, ba));
        }
    }
    for (op, a, b, want) in ARITH {
        n += 1;
        let r = match *op {
            "+" => plus(&v(a), &v(b)),
            "-" => minus(&v(a), &v(b)),
            "*" => times(&v(a), &v(b)),
            _ => over(&v(a), &v(b)),
        };
        match r {
            Ok(got) if same_loose(&got, &v(want)) => {}
            other => fail(format!("{} {} {} should be {}: got {:?}", a, op, b, want, other)),
        }
    }
    for (a, want) in TRUTHY {
        n += 1;
        if v(a).truthy() != *want {
            fail(format!("truthy({}) should be {}", a, want));
        }
    }
    // negate, inc/dec, rounding, split, join, cast anchors
    let checks: Vec<(&str, bool)> = vec![
        ("negate M is an error", negate(&V::Myst).is_err()),
        ("negate N is an error", negate(&V::Null).is_err()),
        ("negate \"\" is an error", negate(&V::Str(String::new())).is_err()),
        ("negate [] is an error", negate(&v("A0")).is_err()),
        ("negate 1.5 = -1.5", matches!(negate(&V::Num(1.5)), Ok(V::Num(x)) if x == -1.5)),
        ("inc null 1 = 1", {
            let mut x = V::Null;
            inc(&mut x, 1).is_ok() && matches!(x, V::Num(n) if n == 1.0)
        }),
        ("inc true 1 = false, 2 = true", {
            let (mut x, mut y) = (V::Bool(true), V::Bool(true));
            inc(&mut x, 1).is_ok() && inc(&mut y, 2).is_ok() && matches!(x, V::Bool(false)) && matches!(y, V::Bool(true))
        }),
        ("inc mysterious / string / array is an error", {
            inc(&mut V::Myst, 1).is_err() && inc(&mut V::Str("x".into()), 1).is_err() && inc(&mut v("A0"), -1).is_err()
        }),
        ("round up 1.2 = 2, down 1.8 = 1, nearest 1.5 = 2, nearest 1.4 = 1", {
            matches!(round(&V::Num(1.2), Dir::Up), Ok(V::Num(x)) if x == 2.0)
                && matches!(round(&V::Num(1.8), Dir::Down), Ok(V::Num(x)) if x == 1.0)
                && matches!(round(&V::Num(1.5), Dir::Nearest), Ok(V::Num(x)) if x == 2.0)
                && matches!(round(&V::Num(1.4), Dir::Nearest), Ok(V::Num(x)) if x == 1.0)
        }),
        ("rounding a non-number is an error", round(&V::Null, Dir::Up).is_err() && round(&V::Str("1".into()), Dir::Nearest).is_err()),
        ("split \"\" = []", matches!(split(&V::Str(String::new()), None), Ok(V::Arr(a)) if a.seq.is_empty())),
        ("split \"abc\" = [a,b,c]", matches!(split(&V::Str("abc".into()), None), Ok(V::Arr(a)) if a.seq.len() == 3)),
        ("split \"a,b,,c\" by \",\" keeps the empty piece", matches!(split(&V::Str("a,b,,c".into()), Some(&V::Str(",".into()))), Ok(V::Arr(a)) if a.seq.len() == 4)),
        ("split by a non-string is an error", split(&V::Str("a".into()), Some(&V::Num(1.0))).is_err()),
        ("split of a non-string is an error", split(&V::Num(1.0), None).is_err()),
        ("join [] = \"\"", matches!(join(&v("A0"), None), Ok(V::Str(s)) if s.is_empty())),
        ("join of an array with a non-string is an error", join(&v("A1"), None).is_err()),
        ("join of a non-array is an error", join(&V::Str("x".into()), None).is_err()),
        ("cast \"12.5\" = 12.5", matches!(cast(&V::Str("12.5".into()), None), Ok(V::Num(x)) if x == 12.5)),
        ("cast \"ff\" with 16 = 255", matches!(cast(&V::Str("ff".into()), Some(&V::Num(16.0))), Ok(V::Num(x)) if x == 255.0)),
        ("cast \"zz\" = error", cast(&V::Str("zz".into()), None).is_err()),
        ("cast 65 = \"A\"", matches!(cast(&V::Num(65.0), None), Ok(V::Str(s)) if s == "A")),
        ("cast 65 with a parameter = error", cast(&V::Num(65.0), Some(&V::Num(2.0))).is_err()),
        ("cast 1.5 / -1 / 0xD800 = error", cast(&V::Num(1.5), None).is_err() && cast(&V::Num(-1.0), None).is_err() && cast(&V::Num(55296.0), None).is_err()),
        ("cast null = error", cast(&V::Null, None).is_err()),
    ];
    for (what, ok) in checks {
        n += 1;
        if !ok {
            fail(what.to_string());
        }
    }
    // precedence ladder against hand-computed trees
    {
        use super::grammar::{climb, Fam};
        use super::rast::{Expr, Ident, Name, Prim};
        let nm = |s: &str| Expr::Prim(Prim::Ident(Ident::Name(Name::Simple(s.into()))));
        let t = climb(vec![nm("a"), nm("b"), nm("c")], &[(BinOp::Plus, Fam::Add, vec![]), (BinOp::Times, Fam::Mul, vec![])]);
        let want = Expr::Bin(BinOp::Plus, Box::new(nm("a")), vec![Expr::Bin(BinOp::Times, Box::new(nm("b")), vec![nm("c")])]);
        n += 1;
        if t != Some(want) {
            fail("a + b * c must be a + (b * c)".into());
        }
        let t = climb(vec![nm("a"), nm("b"), nm("c")], &[(BinOp::Minus, Fam::Add, vec![]), (BinOp::Minus, Fam::Add, vec![])]);
        let want = Expr::Bin(BinOp::Minus, Box::new(Expr::Bin(BinOp::Minus, Box::new(nm("a")), vec![nm("b")])), vec![nm("c")]);
        n += 1;
        if t != Some(want) {
            fail("a - b - c must be (a - b) - c".into());
        }
        n += 1;
        if climb(vec![nm("a"), nm("b"), nm("c")], &[(BinOp::Eq, Fam::IsCmp, vec![]), (BinOp::Gt, Fam::SymCmp, vec![])]).is_some() {
            fail("`a is b > c` must be rejected by the reference grammar".into());
        }
    }
    // hash-seed control
    {
        use crate::engine::seed::with_seed;
        let order = |seed: u64| {
            with_seed(seed, || {
                let mut m = std::collections::HashMap::new();
                for k in ["p", "q", "r", "s"] {
                    m.insert(k, 1);
                }
                m.keys().cloned().collect::<Vec<_>>().join("")
            })
            .unwrap()
        };
        let a = order(7);
        let b = order(7);
        let distinct: std::collections::BTreeSet<String> = (0..32).map(order).collect();
        n += 2;
        if a != b {
            fail(format!("hash-seed control: the same seed gave two iteration orders ({} / {})", a, b));
        }
        if distinct.len() < 6 {
            fail(format!("hash-seed control: 32 seeds reached only {} iteration orders", distinct.len()));
        }
    }
    // corpus parses; generator names are not keywords
    for p in crate::props::corpus::VALID {
        n += 1;
        if let Err(e) = rrss::frontend::parser::parse(p) {
            fail(format!("corpus program does not parse: {} — {:?}", e, p));
        }
    }
    for name in ["x", "y", "z", "u", "v", "w", "q", "c", "d", "k", "j", "m", "s", "zed", "yod", "qux", "fun", "gun", "hun", "two", "nev", "vm", "vn", "vb", "vz", "vf", "vg", "vh", "vx", "se", "sa", "sn", "ae", "ar", "ad", "ea", "ne", "tv", "cn", "dd", "wx", "wy", "wz", "mu", "élan", "über", "ñu"] {
        n += 1;
        let toks: Vec<_> = rrss::frontend::lexer::Lexer::new(name).collect();
        if toks.len() != 1 || !toks[0].id.is_word() {
            fail(format!("generator name {:?} is not a plain word token: {:?}", name, toks.iter().map(|t| t.id).collect::<Vec<_>>()));
        }
    }
    if bad == 0 {
        println!("selftest ({} build): {} checks ok", crate::engine::config_name(), n);
        0
    } else {
        eprintln!("selftest: {} of {} checks failed", bad, n);
        2
    }
}

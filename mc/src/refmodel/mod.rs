pub mod grammar;
pub mod interp;
pub mod poetic;
pub mod rast;
pub mod selftest;
pub mod to_ast;
pub mod value;

//! The value universe U: one element per boundary the coercions inspect, each with a constructor
//! snippet that leaves the value in a named variable.
pub struct UVal {
    pub label: &'static str,
    /// statements with `@` standing for the variable name; may use the scratch variable `w@`
    pub ctor: &'static str,
}

pub const U: &[UVal] = &[
    UVal { label: "mysterious", ctor: "put mysterious into @\n" },
    UVal { label: "null", ctor: "put null into @\n" },
    UVal { label: "true", ctor: "put true into @\n" },
    UVal { label: "false", ctor: "put false into @\n" },
    UVal { label: "0", ctor: "put 0 into @\n" },
    UVal { label: "-0", ctor: "put 0 times -1 into @\n" },
    UVal { label: "1", ctor: "put 1 into @\n" },
    UVal { label: "-1", ctor: "put -1 into @\n" },
    UVal { label: "0.5", ctor: "put 0.5 into @\n" },
    UVal { label: "2", ctor: "put 2 into @\n" },
    UVal { label: "1e21", ctor: "put 1e21 into @\n" },
    UVal { label: "2^53", ctor: "put 9007199254740992 into @\n" },
    UVal { label: "NaN", ctor: "put 0 over 0 into @\n" },
    UVal { label: "+inf", ctor: "put 1 over 0 into @\n" },
    UVal { label: "-inf", ctor: "put -1 over 0 into @\n" },
    UVal { label: "\"\"", ctor: "put \"\" into @\n" },
    UVal { label: "\"a\"", ctor: "put \"a\" into @\n" },
    UVal { label: "\"abc\"", ctor: "put \"abc\" into @\n" },
    UVal { label: "\"0\"", ctor: "put \"0\" into @\n" },
    UVal { label: "\"1\"", ctor: "put \"1\" into @\n" },
    UVal { label: "\"1.5\"", ctor: "put \"1.5\" into @\n" },
    UVal { label: "\" 1\"", ctor: "put \" 1\" into @\n" },
    UVal { label: "\"1e3\"", ctor: "put \"1e3\" into @\n" },
    UVal { label: "\"true\"", ctor: "put \"true\" into @\n" },
    UVal { label: "\"null\"", ctor: "put \"null\" into @\n" },
    UVal { label: "\"mysterious\"", ctor: "put \"mysterious\" into @\n" },
    UVal { label: "[]", ctor: "rock @\n" },
    UVal { label: "[1]", ctor: "rock @ with 1\n" },
    UVal { label: "[0]", ctor: "rock @ with 0\n" },
    UVal { label: "[1,2]", ctor: "rock @ with 1, 2\n" },
    UVal { label: "[\"a\"]", ctor: "rock @ with \"a\"\n" },
    UVal { label: "{k:1}", ctor: "let @ at \"k\" be 1\n" },
    UVal { label: "[1,[2]]", ctor: "rock w@ with 2\nrock @ with 1\nrock @ with w@\n" },
    UVal { label: "[[]]", ctor: "rock w@\nrock @ with 1\nlet @ at 0 be w@\n" },
    // thresholds an implementation may treat specially
    UVal { label: "65", ctor: "put 65 into @\n" },
    UVal { label: "255", ctor: "put 255 into @\n" },
    UVal { label: "256", ctor: "put 256 into @\n" },
    UVal { label: "55296", ctor: "put 55296 into @\n" },
    UVal { label: "2^31", ctor: "put 2147483648 into @\n" },
    UVal { label: "2^32", ctor: "put 4294967296 into @\n" },
    UVal { label: "2^63", ctor: "put 9223372036854775808 into @\n" },
    UVal { label: "2^64", ctor: "put 18446744073709551616 into @\n" },
    UVal { label: "1e15", ctor: "put 1e15 into @\n" },
    UVal { label: "1e16", ctor: "put 1e16 into @\n" },
    UVal { label: "1e-16", ctor: "put 1 over 1e16 into @\n" },
    UVal { label: "denormal", ctor: "put 1 over 1e308 over 1e15 into @\n" },
    UVal { label: "0.1+0.2", ctor: "put 0.1 plus 0.2 into @\n" },
    UVal { label: "1/3", ctor: "put 1 over 3 into @\n" },
    UVal { label: "-0.5", ctor: "put -0.5 into @\n" },
    UVal { label: "\"-0\"", ctor: "put \"-0\" into @\n" },
    UVal { label: "\" \"", ctor: "put \" \" into @\n" },
    UVal { label: "\"A\"", ctor: "put \"A\" into @\n" },
    UVal { label: "\"é😀\"", ctor: "put \"é😀\" into @\n" },
    UVal { label: "\"false\"", ctor: "put \"false\" into @\n" },
    UVal { label: "\"10\"", ctor: "put \"10\" into @\n" },
    UVal { label: "\"9\"", ctor: "put \"9\" into @\n" },
    UVal { label: "long string", ctor: "put \"0123456789012345678901234567890123456789012345678901234567890123456789\" into @\n" },
    UVal { label: "[1..9]", ctor: "rock @ with 1, 2, 3, 4, 5, 6, 7, 8, 9\n" },
    UVal { label: "[1]+{k:2}", ctor: "rock @ with 1\nlet @ at \"k\" be 2\n" },
    UVal { label: "[mysterious]", ctor: "let @ at 0 be mysterious\n" },
    UVal { label: "[[[1]]]", ctor: "let @ at 0 at 0 at 0 be 1\n" },
    // arrays holding values that are not equal to themselves / that coerce
    UVal { label: "[NaN]", ctor: "rock @ with 0 over 0\n" },
    UVal { label: "[1,[NaN]]", ctor: "rock w@ with 0 over 0\nrock @ with 1\nrock @ with w@\n" },
    UVal { label: "{k:NaN}", ctor: "let @ at \"k\" be 0 over 0\n" },
    UVal { label: "[\"1\"]", ctor: "rock @ with \"1\"\n" },
];

/// a smaller universe for cubic families: one value per kind plus the sharpest boundaries
pub const SMALL: &[usize] = &[0, 1, 2, 3, 4, 6, 8, 12, 15, 16, 19, 26, 27];

pub fn ctor(i: usize, name: &str) -> String {
    U[i].ctor.replace('@', name)
}

//! Reference grammar as a generator: productions yield (token list, RAst) pairs; the expected tree
//! is built by the grammar's own semantic actions (precedence ladder, left-associative folds, list
//! operands, block closing). It never calls the rrss parser. A renderer turns token lists into text.
use super::rast::*;

/// alias table (own copy: a dropped or added alias in rrss is a disagreement). Canonical first.
pub const ALIASES: &[(&str, &[&str])] = &[
    ("mysterious", &["mysterious"]),
    ("null", &["null", "nothing", "nowhere", "nobody", "gone"]),
    ("true", &["true", "right", "yes", "ok"]),
    ("false", &["false", "wrong", "no", "lies"]),
    ("empty", &["empty", "silent", "silence"]),
    ("it", &["it", "he", "she", "him", "her", "they", "them", "ze", "hir", "zie", "zir", "xe", "xem", "ve", "ver"]),
    ("plus", &["plus", "with", "+"]),
    ("minus", &["minus", "without", "-"]),
    ("times", &["times", "of", "*"]),
    ("over", &["over", "between", "/"]),
    ("into", &["into", "in"]),
    ("is", &["is", "are", "was", "were"]),
    ("isnt", &["isnt", "isn't", "aint", "ain't", "arent", "aren't", "wasnt", "wasn't", "werent", "weren't"]),
    ("says", &["says", "said"]),
    ("greater", &["greater", "higher", "bigger", "stronger"]),
    ("less", &["less", "lower", "smaller", "weaker"]),
    ("great", &["great", "high", "big", "strong"]),
    ("small", &["small", "low", "little", "weak"]),
    ("say", &["say", "shout", "whisper", "scream"]),
    ("cut", &["cut", "split", "shatter"]),
    ("join", &["join", "unite"]),
    ("cast", &["cast", "burn"]),
    ("round", &["round", "around"]),
    ("takes", &["takes", "wants"]),
    ("return", &["return", "send", "give"]),
    ("gt", &[">"]),
    ("ge", &[">="]),
    ("lt", &["<"]),
    ("le", &["<="]),
];

pub const SINGLE_KEYWORDS: &[&str] = &[
    "put", "let", "be", "and", "or", "nor", "not", "as", "than", "if", "else", "while", "until", "build", "knock", "up", "down", "listen", "to",
    "turn", "continue", "break", "take", "top", "rock", "roll", "at", "like", "taking", "back", "with", "the",
];

pub fn aliases_of(class: &str) -> Vec<&'static str> {
    for (c, a) in ALIASES {
        if *c == class {
            return a.to_vec();
        }
    }
    for k in SINGLE_KEYWORDS {
        if *k == class {
            return vec![k];
        }
    }
    panic!("unknown keyword class {}", class)
}

#[derive(Clone, Debug, PartialEq)]
pub struct Tk {
    pub s: String,
    /// keyword class (alias / case deviations apply) or None for names, literals, symbols
    pub kw: Option<&'static str>,
    /// no space between this token and the previous one (commas, 's)
    pub glue: bool,
    /// inside a poetic literal: spelling is content, no deviations
    pub verbatim: bool,
}

pub fn kw(class: &'static str) -> Tk {
    let _ = aliases_of(class);
    let s = aliases_of(class)[0].to_string();
    Tk { s, kw: Some(class), glue: false, verbatim: false }
}
pub fn w(s: &str) -> Tk {
    Tk { s: s.to_string(), kw: None, glue: false, verbatim: false }
}
pub fn glued(s: &str) -> Tk {
    Tk { s: s.to_string(), kw: None, glue: true, verbatim: false }
}
pub fn verb(s: &str) -> Tk {
    Tk { s: s.to_string(), kw: None, glue: false, verbatim: true }
}
pub fn nl() -> Tk {
    Tk { s: "\n".to_string(), kw: None, glue: true, verbatim: false }
}
pub fn comma() -> Tk {
    glued(",")
}

pub fn render(toks: &[Tk]) -> String {
    render_with(toks, None)
}

/// gap_noise: (index of the token before which the gap lies, replacement for the gap)
pub fn render_with(toks: &[Tk], gap_noise: Option<(usize, &str)>) -> String {
    let mut s = String::new();
    for (i, t) in toks.iter().enumerate() {
        let bol = s.is_empty() || s.ends_with('\n');
        let default_gap = if t.glue || bol { "" } else { " " };
        match gap_noise {
            Some((g, n)) if g == i => s.push_str(n),
            _ => s.push_str(default_gap),
        }
        s.push_str(&t.s);
    }
    s
}

// ------------------------------------------------------------------ expressions with tokens

pub type TE = (Vec<Tk>, Expr);
pub type TP = (Vec<Tk>, Prim);

pub fn name_simple(n: &str) -> TP {
    (vec![w(n)], Prim::Ident(Ident::Name(Name::Simple(n.to_string()))))
}
pub fn name_common(p: &str, n: &str) -> TP {
    (vec![w(p), w(n)], Prim::Ident(Ident::Name(Name::Common(p.to_string(), n.to_string()))))
}
pub fn name_proper(ws: &[&str]) -> TP {
    (ws.iter().map(|x| w(x)).collect(), Prim::Ident(Ident::Name(Name::Proper(ws.iter().map(|s| s.to_string()).collect()))))
}
pub fn pronoun() -> TP {
    (vec![kw("it")], Prim::Ident(Ident::Pronoun))
}
/// number literals in every size: 1..25 digits, powers of two and ten and their neighbours, fractions of
/// 1..20 digits, unsigned exponents up to overflow, leading zeros, bare leading / trailing point
pub fn numerals() -> Vec<String> {
    let mut v: Vec<String> = Vec::new();
    for n in 1..=25usize {
        v.push(format!("1{}", "0".repeat(n - 1)));
        v.push("9".repeat(n));
        v.push(format!("5{}", "0".repeat(n - 1)));
        v.push(format!("{}1", "1".repeat(n - 1)));
    }
    for k in [7u32, 8, 15, 16, 24, 31, 32, 53, 63, 64] {
        let p: u128 = 1u128 << k;
        v.push((p - 1).to_string());
        v.push(p.to_string());
        v.push((p + 1).to_string());
        v.push(format!("{}.0", p));
    }
    for n in 1..=20usize {
        v.push(format!("0.{}", "1".repeat(n)));
        v.push(format!("{}.{}", "7".repeat(n), "3".repeat(n)));
    }
    for e in [0u32, 1, 5, 9, 10, 15, 16, 22, 23, 99, 307, 308, 309, 400] {
        v.push(format!("1e{}", e));
        v.push(format!("1E{}", e));
        v.push(format!("1.5e{}", e));
        v.push(format!("17976931348623157e{}", e));
    }
    for s in ["007", "000", "0005.50", ".5", "1.", "0.000001", "0.0000001", "123456789.123456789", "4294967295.5", "0.1", "0.2", "0.30000000000000004", "9007199254740993", "2.2250738585072014e0"] {
        v.push(s.to_string());
    }
    v.sort();
    v.dedup();
    v
}

pub fn num(text: &str) -> TP {
    (vec![w(text)], Prim::Lit(Lit::Num(text.parse::<f64>().expect("numeral"))))
}
pub fn string(content: &str) -> TP {
    (vec![w(&format!("\"{}\"", content))], Prim::Lit(Lit::Str(content.to_string())))
}
pub fn lit_kw(class: &'static str) -> TP {
    let l = match class {
        "mysterious" => Lit::Mysterious,
        "null" => Lit::Null,
        "true" => Lit::Bool(true),
        "false" => Lit::Bool(false),
        "empty" => Lit::Str(String::new()),
        _ => panic!("not a literal keyword"),
    };
    (vec![kw(class)], Prim::Lit(l))
}
pub fn sub(a: TP, i: TP) -> TP {
    let mut t = a.0;
    t.push(kw("at"));
    t.extend(i.0);
    (t, Prim::Sub(Box::new(a.1), Box::new(i.1)))
}
pub fn roll(a: TP) -> TP {
    let mut t = vec![kw("roll")];
    t.extend(a.0);
    (t, Prim::Pop(Box::new(a.1)))
}
/// separators of argument / parameter lists
pub const SEPS: &[&str] = &[",", "&", "'n'", "and", ", and", "'N'", ", AND", "And"];
pub fn sep_tokens(sep: &str) -> Vec<Tk> {
    match sep {
        "," => vec![comma()],
        "&" => vec![w("&")],
        "'n'" => vec![w("'n'")],
        "and" => vec![kw("and")],
        ", and" => vec![comma(), kw("and")],
        "'N'" => vec![w("'N'")],
        ", AND" => vec![comma(), w("AND")],
        "And" => vec![w("And")],
        _ => panic!("separator"),
    }
}
pub fn call(fname: &str, args: Vec<TE>, sep: &str) -> TP {
    let mut t = vec![w(fname), kw("taking")];
    let mut es = Vec::new();
    for (i, a) in args.into_iter().enumerate() {
        if i > 0 {
            t.extend(sep_tokens(sep));
        }
        t.extend(a.0);
        es.push(a.1);
    }
    (t, Prim::Call(Name::Simple(fname.to_string()), es))
}
pub fn pe(p: TP) -> TE {
    (p.0, Expr::Prim(p.1))
}
pub fn un(op: UnOp, e: TE) -> TE {
    let mut t = vec![match op {
        UnOp::Not => kw("not"),
        UnOp::Neg => w("-"),
    }];
    t.extend(e.0);
    (t, Expr::Un(op, Box::new(e.1)))
}

/// the 13 binary operators in canonical spelling; (operator, tokens, precedence level, family)
#[derive(Clone, Copy, Debug, PartialEq)]
pub enum Fam {
    Logic,
    IsCmp,
    SymCmp,
    Add,
    Mul,
}

#[derive(Clone, Debug)]
pub struct OpSpell {
    pub op: BinOp,
    pub fam: Fam,
    pub toks: Vec<Tk>,
    pub label: &'static str,
}

pub fn op_spellings() -> Vec<OpSpell> {
    let o = |op, fam, toks, label| OpSpell { op, fam, toks, label };
    vec![
        o(BinOp::Plus, Fam::Add, vec![kw("plus")], "plus"),
        o(BinOp::Minus, Fam::Add, vec![kw("minus")], "minus"),
        o(BinOp::Times, Fam::Mul, vec![kw("times")], "times"),
        o(BinOp::Over, Fam::Mul, vec![kw("over")], "over"),
        o(BinOp::And, Fam::Logic, vec![kw("and")], "and"),
        o(BinOp::Or, Fam::Logic, vec![kw("or")], "or"),
        o(BinOp::Nor, Fam::Logic, vec![kw("nor")], "nor"),
        o(BinOp::Eq, Fam::IsCmp, vec![kw("is")], "is"),
        o(BinOp::Ne, Fam::IsCmp, vec![kw("is"), kw("not")], "is not"),
        o(BinOp::Gt, Fam::IsCmp, vec![kw("is"), kw("greater"), kw("than")], "is greater than"),
        o(BinOp::Ge, Fam::IsCmp, vec![kw("is"), kw("as"), kw("great"), kw("as")], "is as great as"),
        o(BinOp::Lt, Fam::IsCmp, vec![kw("is"), kw("less"), kw("than")], "is less than"),
        o(BinOp::Le, Fam::IsCmp, vec![kw("is"), kw("as"), kw("small"), kw("as")], "is as small as"),
        o(BinOp::Ne, Fam::SymCmp, vec![kw("isnt")], "isnt"),
        o(BinOp::Gt, Fam::SymCmp, vec![kw("gt")], ">"),
        o(BinOp::Ge, Fam::SymCmp, vec![kw("ge")], ">="),
        o(BinOp::Lt, Fam::SymCmp, vec![kw("lt")], "<"),
        o(BinOp::Le, Fam::SymCmp, vec![kw("le")], "<="),
    ]
}

fn level(f: Fam) -> u8 {
    match f {
        Fam::Logic => 1,
        Fam::IsCmp | Fam::SymCmp => 2,
        Fam::Add => 3,
        Fam::Mul => 4,
    }
}

/// The precedence ladder (logical < comparison < term < factor), left-associative folds, on a flat
/// chain `e0 op1 e1 op2 e2 ...` whose operands are unary/primary expressions. Each operator may
/// carry extra list elements (`op e, x, y`). Returns None when the grammar rejects the chain
/// (an `is`-comparison chained with a symbolic one, or a list on a worded comparison).
pub fn climb(operands: Vec<Expr>, ops: &[(BinOp, Fam, Vec<Expr>)]) -> Option<Expr> {
    assert_eq!(operands.len(), ops.len() + 1);
    // recursive split at the lowest level present, leftmost-associative
    fn build(operands: &[Expr], ops: &[(BinOp, Fam, Vec<Expr>)], lvl: u8) -> Option<Expr> {
        if ops.is_empty() {
            return Some(operands[0].clone());
        }
        if lvl > 4 {
            return None;
        }
        // positions of operators of this level
        let pos: Vec<usize> = ops.iter().enumerate().filter(|(_, o)| level(o.1) == lvl).map(|(i, _)| i).collect();
        if pos.is_empty() {
            return build(operands, ops, lvl + 1);
        }
        if lvl == 2 {
            // one comparison level cannot mix the two families
            let fams: Vec<Fam> = pos.iter().map(|p| ops[*p].1).collect();
            if fams.iter().any(|f| *f != fams[0]) {
                return None;
            }
        }
        // segments between operators of this level are parsed at the next level
        let mut acc = build(&operands[..=pos[0]], &ops[..pos[0]], lvl + 1)?;
        for (k, p) in pos.iter().enumerate() {
            let end = if k + 1 < pos.len() { pos[k + 1] } else { ops.len() };
            let rhs = build(&operands[p + 1..=end], &ops[p + 1..end], lvl + 1)?;
            let (op, fam, extra) = &ops[*p];
            if *fam == Fam::IsCmp && !extra.is_empty() {
                return None;
            }
            let mut list = vec![rhs];
            list.extend(extra.iter().cloned());
            acc = Expr::Bin(*op, Box::new(acc), list);
        }
        Some(acc)
    }
    build(&operands, ops, 1)
}

// ------------------------------------------------------------------ statements with tokens

pub type TS = (Vec<Tk>, Stmt);

fn lhs_of(p: &Prim) -> Lhs {
    match p {
        Prim::Ident(i) => Lhs::Ident(i.clone()),
        Prim::Sub(a, i) => Lhs::Sub(a.clone(), i.clone()),
        _ => panic!("not an assignable expression"),
    }
}

pub fn s_put(value: TE, dest: TP) -> TS {
    let mut t = vec![kw("put")];
    t.extend(value.0);
    t.push(kw("into"));
    t.extend(dest.0);
    (t, Stmt::Assign { dest: lhs_of(&dest.1), op: None, value: vec![value.1] })
}
pub fn s_let(dest: TP, op: Option<(BinOp, &'static str)>, values: Vec<TE>) -> TS {
    let mut t = vec![kw("let")];
    t.extend(dest.0);
    t.push(kw("be"));
    if let Some((_, class)) = op {
        t.push(kw(class));
    }
    let mut vs = Vec::new();
    for (i, v) in values.into_iter().enumerate() {
        if i > 0 {
            t.push(comma());
        }
        t.extend(v.0);
        vs.push(v.1);
    }
    (t, Stmt::Assign { dest: lhs_of(&dest.1), op: op.map(|o| o.0), value: vs })
}
/// `X is <expr>` where the expression starts with a literal word
pub fn s_poetic_expr(dest: TP, value: TE) -> TS {
    let mut t = dest.0;
    t.push(kw("is"));
    t.extend(value.0);
    (t, Stmt::PoeticNum { dest: lhs_of(&dest.1), rhs: PoeticRhs::Expr(value.1) })
}
/// `X is <words>`: words are verbatim content; the tree holds them as spelled
pub fn s_poetic_num(dest: TP, words: &[&str]) -> TS {
    let mut t = dest.0;
    t.push(kw("is"));
    let mut elems = Vec::new();
    for x in words {
        t.push(verb(x));
        elems.push(if *x == "." { PElem::Dot } else { PElem::Word(x.to_string()) });
    }
    (t, Stmt::PoeticNum { dest: lhs_of(&dest.1), rhs: PoeticRhs::Lit(elems) })
}
pub fn s_poetic_str(dest: TP, text: &str) -> TS {
    let mut t = dest.0;
    t.push(kw("says"));
    for (i, x) in text.split(' ').enumerate() {
        let _ = i;
        t.push(verb(x));
    }
    (t, Stmt::PoeticStr { dest: lhs_of(&dest.1), text: text.to_string() })
}
pub fn s_say(e: TE) -> TS {
    let mut t = vec![kw("say")];
    t.extend(e.0);
    (t, Stmt::Output(e.1))
}
pub fn s_listen(dest: Option<TP>) -> TS {
    let mut t = vec![kw("listen")];
    let d = dest.map(|d| {
        t.push(kw("to"));
        t.extend(d.0);
        lhs_of(&d.1)
    });
    (t, Stmt::Input { dest: d })
}
pub fn s_build(dest: TP, n: usize, commas: bool) -> TS {
    let mut t = vec![kw("build")];
    t.extend(dest.0);
    for i in 0..n {
        if i > 0 && commas {
            t.push(comma());
        }
        t.push(kw("up"));
    }
    let id = match dest.1 {
        Prim::Ident(i) => i,
        _ => panic!("build needs an identifier"),
    };
    (t, Stmt::Inc { dest: id, n: n as i64 })
}
pub fn s_knock(dest: TP, n: usize, commas: bool) -> TS {
    let mut t = vec![kw("knock")];
    t.extend(dest.0);
    for i in 0..n {
        if i > 0 && commas {
            t.push(comma());
        }
        t.push(kw("down"));
    }
    let id = match dest.1 {
        Prim::Ident(i) => i,
        _ => panic!("knock needs an identifier"),
    };
    (t, Stmt::Dec { dest: id, n: n as i64 })
}
pub fn s_mutation(op: MutOp, operand: TP, dest: Option<TP>, param: Option<TE>) -> TS {
    let mut t = vec![kw(match op {
        MutOp::Cut => "cut",
        MutOp::Join => "join",
        MutOp::Cast => "cast",
    })];
    t.extend(operand.0);
    let d = dest.map(|d| {
        t.push(kw("into"));
        t.extend(d.0);
        lhs_of(&d.1)
    });
    let p = param.map(|p| {
        t.push(kw("with"));
        t.extend(p.0);
        p.1
    });
    (t, Stmt::Mutation { op, operand: operand.1, dest: d, param: p })
}
pub fn s_turn(dir: Dir, operand: TE, dir_first: bool) -> TS {
    let d = kw(match dir {
        Dir::Up => "up",
        Dir::Down => "down",
        Dir::Nearest => "round",
    });
    let mut t = vec![kw("turn")];
    if dir_first {
        t.push(d);
        t.extend(operand.0);
    } else {
        t.extend(operand.0);
        t.push(d);
    }
    (t, Stmt::Round { dir, operand: operand.1 })
}
pub fn s_rock(array: TP, values: Vec<TE>) -> TS {
    let mut t = vec![kw("rock")];
    t.extend(array.0);
    let mut vs = Vec::new();
    for (i, v) in values.into_iter().enumerate() {
        t.push(if i == 0 { kw("with") } else { comma() });
        t.extend(v.0);
        vs.push(v.1);
    }
    (t, Stmt::Push { array: array.1, value: if vs.is_empty() { None } else { Some(PushRhs::List(vs)) } })
}
pub fn s_rock_like(array: TP, words: &[&str]) -> TS {
    let mut t = vec![kw("rock")];
    t.extend(array.0);
    t.push(kw("like"));
    let mut elems = Vec::new();
    for x in words {
        t.push(verb(x));
        elems.push(PElem::Word(x.to_string()));
    }
    (t, Stmt::Push { array: array.1, value: Some(PushRhs::Lit(elems)) })
}
pub fn s_roll(array: TP, dest: Option<TP>) -> TS {
    let mut t = vec![kw("roll")];
    t.extend(array.0);
    let d = dest.map(|d| {
        t.push(kw("into"));
        t.extend(d.0);
        lhs_of(&d.1)
    });
    (t, Stmt::Pop { array: array.1, dest: d })
}
/// form: 0 `return e`, 1 `return e back`, 2 `give back e`, 3 `give e back`, 4 `give e`, 5 `send e back`
pub fn s_return(e: TE, form: usize) -> TS {
    let mut t = Vec::new();
    let give = Tk { s: "give".into(), kw: None, glue: false, verbatim: false };
    let send = Tk { s: "send".into(), kw: None, glue: false, verbatim: false };
    match form {
        0 => {
            t.push(kw("return"));
            t.extend(e.0);
        }
        1 => {
            t.push(kw("return"));
            t.extend(e.0);
            t.push(kw("back"));
        }
        2 => {
            t.push(give);
            t.push(kw("back"));
            t.extend(e.0);
        }
        3 => {
            t.push(give);
            t.extend(e.0);
            t.push(kw("back"));
        }
        4 => {
            t.push(give);
            t.extend(e.0);
        }
        6 => {
            t.push(give);
            t.push(kw("back"));
            t.extend(e.0);
            t.push(kw("back"));
        }
        7 => {
            t.push(send);
            t.extend(e.0);
        }
        _ => {
            t.push(send);
            t.extend(e.0);
            t.push(kw("back"));
        }
    }
    (t, Stmt::Return(e.1))
}
pub fn s_break(long: bool) -> TS {
    let mut t = vec![kw("break")];
    if long {
        t.push(w("it"));
        t.push(kw("down"));
    }
    (t, Stmt::Break)
}
pub fn s_continue(long: bool) -> TS {
    if long {
        (vec![kw("take"), w("it"), kw("to"), kw("the"), kw("top")], Stmt::Continue)
    } else {
        (vec![kw("continue")], Stmt::Continue)
    }
}
pub fn s_call(fname: &str, args: Vec<TE>, sep: &str) -> TS {
    let (t, p) = call(fname, args, sep);
    match p {
        Prim::Call(n, a) => (t, Stmt::Call(n, a)),
        _ => unreachable!(),
    }
}

// ------------------------------------------------------------------ blocks

/// Render a statement list as lines. Nested blocks are closed by one blank line each; a then-block
/// is closed by `else`; a function body whose last statement is an if-else is closed by that
/// statement's blank line. Returns None for trees the grammar cannot express.
pub fn lines(stmts: &[TSB]) -> Option<(Vec<Tk>, Vec<Stmt>)> {
    let mut t = Vec::new();
    let mut out = Vec::new();
    for s in stmts {
        let (st, tree) = line_of(s)?;
        t.extend(st);
        out.push(tree);
    }
    Some((t, out))
}

/// a statement tree whose leaves carry their tokens
#[derive(Clone, Debug)]
pub enum TSB {
    Simple(TS),
    If(TE, Vec<TSB>, Option<Vec<TSB>>),
    While(TE, Vec<TSB>),
    Until(TE, Vec<TSB>),
    Function(String, Vec<String>, &'static str, Vec<TSB>),
}

fn is_if_else(s: &TSB) -> bool {
    matches!(s, TSB::If(_, _, Some(_)))
}

fn line_of(s: &TSB) -> Option<(Vec<Tk>, Stmt)> {
    match s {
        TSB::Simple((t, st)) => {
            let mut t = t.clone();
            t.push(nl());
            Some((t, st.clone()))
        }
        TSB::If(c, th, el) => {
            if th.is_empty() && el.is_none() {
                return None; // U-emptyblock
            }
            let mut t = vec![kw("if")];
            t.extend(c.0.clone());
            t.push(nl());
            let (tt, ts) = lines(th)?;
            t.extend(tt);
            let els = match el {
                Some(e) => {
                    if e.is_empty() {
                        return None;
                    }
                    t.push(kw("else"));
                    t.push(nl());
                    let (et, es) = lines(e)?;
                    t.extend(et);
                    Some(es)
                }
                None => None,
            };
            t.push(nl());
            Some((t, Stmt::If { cond: c.1.clone(), then: ts, els }))
        }
        TSB::While(c, b) | TSB::Until(c, b) => {
            if b.is_empty() {
                return None;
            }
            let until = matches!(s, TSB::Until(..));
            let mut t = vec![kw(if until { "until" } else { "while" })];
            t.extend(c.0.clone());
            t.push(nl());
            let (bt, bs) = lines(b)?;
            t.extend(bt);
            t.push(nl());
            Some((t, if until { Stmt::Until { cond: c.1.clone(), body: bs } } else { Stmt::While { cond: c.1.clone(), body: bs } }))
        }
        TSB::Function(name, params, sep, body) => {
            if body.is_empty() {
                return None;
            }
            // an if-else ends the function body: it can only be the last statement
            if body[..body.len() - 1].iter().any(is_if_else) {
                return None;
            }
            let mut t = vec![w(name), kw("takes")];
            for (i, p) in params.iter().enumerate() {
                if i > 0 {
                    t.extend(sep_tokens(sep));
                }
                t.push(w(p));
            }
            t.push(nl());
            let (bt, bs) = lines(body)?;
            t.extend(bt);
            if !is_if_else(body.last().unwrap()) {
                t.push(nl());
            }
            Some((
                t,
                Stmt::Function { name: Name::Simple(name.clone()), params: params.iter().map(|p| Name::Simple(p.clone())).collect(), body: bs },
            ))
        }
    }
}

//! C14 — equality, ordering and logic obey their algebraic laws on all values (relational oracle).
use super::c03::{to_val, u_value};
use super::universe::{ctor, U};
use crate::engine::space::Space;
use crate::engine::*;
use crate::subject;
use serde_json::{json, Value};

pub const DEF: PropDef = PropDef {
    id: "C14",
    level: "exploration",
    rule: "all ordered pairs of the 75-value universe U (every kind and coercion boundary); for each pair ~30 one-line programs are executed on the real interpreter (and the same cells on rrss::exec::val::Val) and only relations between their results are checked (symmetry, negation, converse orderings incl. error<=>error, antisymmetry vs equality, logic vs truthiness, say a prints the text of the empty string plus a, compound assignment vs its expansion (12 operator spellings incl. + - * / x 7 operand forms: variable, literal, pronoun, lists, the target itself), build-k/knock-k round trip for k=1..4); non-trivial = every case (each compares at least two executions); distinct = distinct (law family, a, b)",
    assumptions: &["relational oracle: no expected values, so it cannot inherit a table error from the code", "values outside U are not covered"],
    build,
    exhaustive: true,
};

pub struct C14 {
    fams: Vec<(String, Space<(usize, usize)>)>,
}

fn build(_tier: Tier) -> Box<dyn Check> {
    let u: Space<usize> = Space::of((0..U.len()).collect());
    let pairs = u.product(&u, |a, b| (a, b));
    let restorable: Vec<usize> = U
        .iter()
        .enumerate()
        .filter(|(_, v)| matches!(v.label, "0" | "-0" | "1" | "-1" | "0.5" | "2" | "true" | "false"))
        .map(|(i, _)| i)
        .collect();
    let bk = Space::of(restorable).product(&Space::of(vec![1usize, 2, 3, 4]), |a, k| (a, k));
    Box::new(C14 {
        fams: vec![
            ("equality-ordering-logic".into(), pairs.clone()),
            ("compound".into(), pairs.clone()),
            ("val-api".into(), pairs),
            ("build-knock".into(), bk),
        ],
    })
}

/// the literal that denotes universe value i, when its constructor is a plain `put <literal> into @`
fn literal_spelling(i: usize) -> Option<String> {
    let c = U[i].ctor;
    let rest = c.strip_prefix("put ")?.strip_suffix(" into @\n")?;
    if rest.contains(" over ") || rest.contains(" times ") || rest.contains(" plus ") || rest.contains('\n') {
        return None;
    }
    Some(rest.to_string())
}

#[derive(Clone, Debug, PartialEq)]
enum Res {
    Out(String),
    Error,
}

fn run(prelude: &str, body: &str, ctx: &mut Ctx) -> Option<Res> {
    let text = format!("{}{}", prelude, body);
    // resource guard only (never an oracle here): programs whose reference run exceeds the
    // step/size budget (e.g. "abc" times 1e21) are outside "modest resources" and not executed
    if let Ok(p) = rrss::frontend::parser::parse(&text) {
        use crate::refmodel::{interp, rast};
        let o = interp::run_reference(&rast::program(&p), b"", interp::Limits::default());
        if let interp::End::Budget(_) = o.end {
            ctx.count("skipped.budget");
            ctx.observe_str("skipped-budget");
            return Some(Res::Out("<budget>".into()));
        }
    }
    let r = subject::exec_text(&text, b"");
    ctx.observe_str(&r.observe());
    if let Some(e) = r.parse_error {
        ctx.violation("unexpected-parse-error", format!("{} — program {:?}", e, text));
        return None;
    }
    Some(match r.result {
        Ok(()) => Res::Out(String::from_utf8_lossy(&r.stdout).into_owned()),
        Err(_) => Res::Error,
    })
}

fn as_bool(r: &Res) -> Option<bool> {
    match r {
        Res::Out(s) if s == "true\n" => Some(true),
        Res::Out(s) if s == "false\n" => Some(false),
        _ => None,
    }
}

impl Check for C14 {
    fn families(&self) -> Vec<(String, u64)> {
        self.fams.iter().map(|(n, s)| (n.clone(), s.len())).collect()
    }
    fn describe(&self, fam: usize, idx: u64) -> Value {
        let (a, b) = self.fams[fam].1.get(idx);
        if fam == 3 {
            json!({"text": format!("{} build/knock x{}", U[a].label, b), "value": U[a].label, "k": b})
        } else {
            json!({"text": format!("{}: a={} b={}", self.fams[fam].0, U[a].label, U[b].label), "a": U[a].label, "b": U[b].label})
        }
    }
    fn run_case(&self, fam: usize, idx: u64, ctx: &mut Ctx) {
        let (a, b) = self.fams[fam].1.get(idx);
        ctx.nontrivial();
        let (la, lb) = (U[a].label, if fam == 3 { "" } else { U[b].label });
        match fam {
            0 => {
                let pre = format!("{}{}", ctor(a, "x"), ctor(b, "y"));
                macro_rules! ev {
                    ($e:expr) => {
                        match run(&pre, &format!("say {}\n", $e), ctx) {
                            Some(r) => r,
                            None => return,
                        }
                    };
                }
                let mut fails: Vec<String> = Vec::new();
                let mut law = |name: &str, ok: bool, detail: String| {
                    if !ok {
                        fails.push(format!("{} fails for a={} b={}: {}", name, la, lb, detail));
                    }
                };
                let eq_ab = ev!("x is y");
                let eq_ba = ev!("y is x");
                let ne_ab = ev!("x isnt y");
                let nn_ab = ev!("x is not y");
                let aint = ev!("x ain't y");
                let (lt_ab, gt_ba) = (ev!("x < y"), ev!("y > x"));
                let (le_ab, ge_ba) = (ev!("x <= y"), ev!("y >= x"));
                let (gt_ab, ge_ab) = (ev!("x > y"), ev!("x >= y"));
                let (ltw, gtw) = (ev!("x is less than y"), ev!("y is greater than x"));
                let (lew, gew) = (ev!("x is as small as y"), ev!("y is as big as x"));
                let tx = match run(&pre, "if x\nsay true\nelse\nsay false\n\n", ctx) {
                    Some(r) => r,
                    None => return,
                };
                let ty = match run(&pre, "if y\nsay true\nelse\nsay false\n\n", ctx) {
                    Some(r) => r,
                    None => return,
                };
                let (notx, and, or, nor) = (ev!("not x"), ev!("x and y"), ev!("x or y"), ev!("x nor y"));
                let (nn, nnn, xx_and, xx_or, xx_nor) = (ev!("not not x"), ev!("not not not x"), ev!("x and x"), ev!("x or x"), ev!("x nor x"));
                let (not_and, not_or) = (ev!("not x and y"), ev!("not x or not y"));
                law("`a is b` = `b is a`", eq_ab == eq_ba && as_bool(&eq_ab).is_some(), format!("{:?} vs {:?}", eq_ab, eq_ba));
                let neg = |r: &Res| as_bool(r).map(|b| !b);
                law("`a isnt b` = not `a is b`", as_bool(&ne_ab).is_some() && as_bool(&ne_ab) == neg(&eq_ab), format!("{:?} vs {:?}", ne_ab, eq_ab));
                law("`a is not b` = not `a is b`", as_bool(&nn_ab) == neg(&eq_ab), format!("{:?} vs {:?}", nn_ab, eq_ab));
                law("`a ain't b` = not `a is b`", as_bool(&aint) == neg(&eq_ab), format!("{:?} vs {:?}", aint, eq_ab));
                law("`a < b` <=> `b > a` (error <=> error)", lt_ab == gt_ba, format!("{:?} vs {:?}", lt_ab, gt_ba));
                law("`a <= b` <=> `b >= a` (error <=> error)", le_ab == ge_ba, format!("{:?} vs {:?}", le_ab, ge_ba));
                law("worded `less than` = `<`", ltw == lt_ab && gtw == gt_ba, format!("{:?}/{:?} vs {:?}/{:?}", ltw, gtw, lt_ab, gt_ba));
                law("worded `as small as` = `<=`", lew == le_ab && gew == ge_ba, format!("{:?}/{:?} vs {:?}/{:?}", lew, gew, le_ab, ge_ba));
                let errs = [&lt_ab, &le_ab, &gt_ab, &ge_ab].iter().filter(|r| ***r == Res::Error).count();
                law("the four orderings of a pair are all errors or none", errs == 0 || errs == 4, format!("{} of 4 are errors", errs));
                if errs == 0 {
                    let (lt, le, gt, ge) = (as_bool(&lt_ab), as_bool(&le_ab), as_bool(&gt_ab), as_bool(&ge_ab));
                    law("orderings print booleans", lt.is_some() && le.is_some() && gt.is_some() && ge.is_some(), format!("{:?} {:?} {:?} {:?}", lt_ab, le_ab, gt_ab, ge_ab));
                    if let (Some(lt), Some(le), Some(gt), Some(ge), Some(eq)) = (lt, le, gt, ge, as_bool(&eq_ab)) {
                        let exists = lt || le || gt || ge;
                        if exists {
                            law("with an ordering, `a <= b and a >= b` coincides with `a is b`", (le && ge) == eq, format!("le={} ge={} is={}", le, ge, eq));
                            law("with an ordering, exactly one of <, =, > holds", (lt as u8 + gt as u8 + (le && ge) as u8) == 1 && le == (lt || (le && ge)) && ge == (gt || (le && ge)), format!("lt={} le={} gt={} ge={}", lt, le, gt, ge));
                        }
                    }
                }
                if let (Some(tx), Some(ty)) = (as_bool(&tx), as_bool(&ty)) {
                    law("`not a` = not truthy(a)", as_bool(&notx) == Some(!tx), format!("{:?} truthy={}", notx, tx));
                    law("`a and b` = truthy(a) && truthy(b)", as_bool(&and) == Some(tx && ty), format!("{:?}", and));
                    law("`a or b` = truthy(a) || truthy(b)", as_bool(&or) == Some(tx || ty), format!("{:?}", or));
                    law("`a nor b` = not (a or b)", as_bool(&nor) == Some(!(tx || ty)), format!("{:?}", nor));
                    law("`not not a` = truthy(a)", as_bool(&nn) == Some(tx), format!("{:?}", nn));
                    law("`not not not a` = not truthy(a)", as_bool(&nnn) == Some(!tx), format!("{:?}", nnn));
                    law("`a and a` = `a or a` = truthy(a), `a nor a` = not truthy(a)", as_bool(&xx_and) == Some(tx) && as_bool(&xx_or) == Some(tx) && as_bool(&xx_nor) == Some(!tx), format!("{:?} {:?} {:?}", xx_and, xx_or, xx_nor));
                    law("`not a and b` = (not a) and b; `not a or not b` = not (a and b)", as_bool(&not_and) == Some(!tx && ty) && as_bool(&not_or) == Some(!(tx && ty)), format!("{:?} {:?}", not_and, not_or));
                } else {
                    law("truthiness is observable through `if`", false, format!("{:?} {:?}", tx, ty));
                }
                // one canonical text per value: what say prints is what joining with the empty string gives
                if !matches!(u_value(a), crate::refmodel::value::V::Arr(_)) {
                    let said = run(&ctor(a, "x"), "say x\n", ctx);
                    let joined = run(&ctor(a, "x"), "say \"\" plus x\n", ctx);
                    if let (Some(p), Some(q)) = (&said, &joined) {
                        if b == 0 && p != q {
                            fails.push(format!("`say a` prints {:?} but `say \"\" plus a` prints {:?} for a={}: a value has one canonical text", p, q, la));
                        }
                    }
                }
                for f in fails {
                    ctx.violation("law-broken", f);
                }
            }
            1 => {
                let pre = format!("{}{}", ctor(a, "x"), ctor(b, "y"));
                // the operand in every form: a variable, the literal spelling of the value, the pronoun (the
                // target is the variable named last), a list, the target itself
                let mut operands: Vec<String> = vec!["y".into(), "it".into(), "y, y".into(), "x".into(), "y, x".into()];
                if let Some(l) = literal_spelling(b) {
                    operands.push(l.clone());
                    operands.push(format!("{}, {}", l, l));
                }
                for (sp, op) in [("plus", "plus"), ("with", "with"), ("minus", "minus"), ("times", "times"), ("over", "over"), ("without", "without"), ("of", "of"), ("between", "between"), ("+", "+"), ("-", "-"), ("*", "*"), ("/", "/")] {
                    for e in &operands {
                        let c = match run(&pre, &format!("say y\nlet x be {} {}\nsay x\nsay x is y\n", sp, e), ctx) {
                            Some(r) => r,
                            None => return,
                        };
                        let x = match run(&pre, &format!("say y\nlet x be x {} {}\nsay x\nsay x is y\n", op, e), ctx) {
                            Some(r) => r,
                            None => return,
                        };
                        if c != x {
                            ctx.violation("law-broken", format!("`let x be {} {}` differs from `let x be x {} {}` for x={} y={}: {:?} vs {:?}", sp, e, op, e, la, lb, c, x));
                        }
                    }
                }
            }
            2 => {
                let (va, vb) = (to_val(&u_value(a)), to_val(&u_value(b)));
                let mut fails: Vec<String> = Vec::new();
                let mut law = |name: &str, ok: bool| {
                    if !ok {
                        fails.push(format!("Val-level law {} fails for a={} b={}", name, la, lb));
                    }
                };
                law("equals symmetric", va.equals(&vb) == vb.equals(&va));
                let (ab, ba) = (va.compare(&vb), vb.compare(&va));
                law("compare: error <=> error", ab.is_err() == ba.is_err());
                if let (Ok(x), Ok(y)) = (&ab, &ba) {
                    law("compare: converse", x.map(|o| o.reverse()) == *y);
                    if let Some(o) = x {
                        law("compare Equal <=> equals", (*o == std::cmp::Ordering::Equal) == va.equals(&vb));
                    }
                }
                ctx.observe_str(&format!("{:?} {:?} {}", ab.is_ok(), ba.is_ok(), va.equals(&vb)));
                for f in fails {
                    ctx.violation("law-broken", f);
                }
            }
            _ => {
                let k = b;
                let ups = vec!["up"; k].join(", ");
                let downs = vec!["down"; k].join(", ");
                let pre = ctor(a, "x");
                let body = format!("put x into w\nbuild x {}\nknock x {}\nsay x is w\nsay x\nsay w\nknock x {}\nbuild x {}\nsay x is w\nsay x\n", ups, downs, downs, ups);
                match run(&pre, &body, ctx) {
                    Some(Res::Out(s)) => {
                        let lines: Vec<&str> = s.lines().collect();
                        let zero = |t: &str| t == "0" || t == "-0";
                        let ok = lines.len() == 5
                            && lines[0] == "true"
                            && lines[3] == "true"
                            && (lines[1] == lines[2] || (zero(lines[1]) && zero(lines[2])))
                            && (lines[4] == lines[2] || (zero(lines[4]) && zero(lines[2])));
                        if !ok {
                            ctx.violation("law-broken", format!("build x{} then knock x{} does not restore {}: output {:?}", k, k, la, s));
                        }
                    }
                    Some(Res::Error) => ctx.violation("law-broken", format!("build/knock of {} raised a runtime error", la)),
                    None => {}
                }
            }
        }
    }
    fn static_coverage(&self) -> Value {
        json!({"universe": U.iter().map(|u| u.label).collect::<Vec<_>>()})
    }
}

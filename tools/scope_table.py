#!/usr/bin/env python3
"""Regenerate the measured-scope table of DESIGN.md §10.2 from evidence/*.json (quick tier runs on the clean tree)."""
import json, re, sys, os
root = os.path.dirname(os.path.dirname(os.path.abspath(__file__)))
ORACLE = {
 "C01": "no panic / abort / hang, rendered error, checked ≡ release",
 "C02": "RAst(parse(text)) = the reference grammar's tree",
 "C03": "reference coercion tables",
 "C04": "reference trace on the parsed tree",
 "C05": "reference interpreter, lexical ∧ dynamic scoping agree",
 "C06": "reference per transition (model trace replayed on the implementation)",
 "C07": "naive reference algorithms; operand untouched",
 "C08": "line model under every fault schedule",
 "C09": "no crash, checked ≡ release, reference where defined",
 "C10": "identical across hash seeds, repetitions and histories",
 "C11": "decimal numeral within 4 ulp; poetic strings byte for byte",
 "C12": "tokens are exact slices with true positions",
 "C13": "Err on the line of the fault",
 "C14": "relational laws between executions",
 "C15": "metamorphic: same output and outcome class",
 "C16": "reference traversal; free monoid; probes; visible default",
 "C17": "folder ⇒ ProduceVal bit for bit; totality on constants",
 "C18": "exact report, spelled value, suggestion round trip",
 "C19": "merge of passes, mention rule, history independence",
 "C20": "binary ≡ library (oracle independent of src/cli)",
}
def fmt(n):
    if n >= 10_000_000: return f"{n/1e6:.0f} M"
    if n >= 1_000_000: return f"{n/1e6:.2f} M"
    if n >= 10_000: return f"{n/1e3:.0f} K"
    return str(n)
rows = ["| id | families swept by the quick tier (cases) | cases | distinct non-trivial | oracle |", "|---|---|---|---|---|"]
for i in range(1, 21):
    pid = f"C{i:02d}"
    e = json.load(open(f"{root}/evidence/{pid}.json"))
    c = e["coverage"]
    if e.get("tier") != "quick" or e.get("violations", 0) != 0:
        print(f"warning: evidence/{pid}.json is tier={e.get('tier')} violations={e.get('violations')}", file=sys.stderr)
    fams = "; ".join(f"{f['name']} ({fmt(f['cases'])})" for f in c["families"])
    extra = []
    if pid == "C06":
        extra.append(f"{c.get('states')} states, {c.get('transitions')} transitions, depth {c.get('max_depth')}, frontier closed: {c.get('frontier_closed')}")
    if pid == "C08":
        extra.append(f"{c.get('schedules_explored')} schedules")
    if pid == "C10":
        extra.append(f"{c.get('runs_under_distinct_seeds')} seeded runs")
    if extra: fams += " — " + ", ".join(extra)
    rows.append(f"| {pid} | {fams} | {fmt(c['cases_in_space'])} | {fmt(c['distinct_nontrivial'])} | {ORACLE[pid]} |")
table = "\n".join(rows)
p = f"{root}/DESIGN.md"
s = open(p).read()
b, en = "<!-- scope-table-begin -->", "<!-- scope-table-end -->"
if b not in s:
    sys.exit("markers missing in DESIGN.md")
s = s[:s.index(b) + len(b)] + "\n" + table + "\n" + s[s.index(en):]
open(p, "w").write(s)
print(table)

//! C11 — poetic literals denote the number or string their words spell.
use crate::engine::space::{strings, Space};
use crate::engine::*;
use crate::subject;
use rrss::frontend::ast::{PoeticNumberLiteral, PoeticNumberLiteralElem};
use serde_json::{json, Value};

pub const DEF: PropDef = PropDef {
    id: "C11",
    level: "exploration",
    rule: "(1) all sequences of 1..4 (thorough 1..5) atoms after 6 heads (`x is`, `x was`, `x are`, `x's`, `the zed were`, `rock x like`) over 41 atoms (words of length 1,3,9,10,11,20,23; words with inner / trailing / leading apostrophes; 's, 're, 's's suffixes; hyphenated words incl. keywords and numerals after the hyphen; words with 5 and 10 suffix parts; the free-standing word 'n' / 'N'; keywords used as words; four non-ASCII words (2-byte letters, length 10, capitals with a hyphen); a numeral; period and comma as separate and glued atoms), and all sequences of 2..3 atoms joined by 6 other blanks (tab, two spaces, NBSP, em space, ideographic space, a mix); expected = the decimal numeral spelled by the word lengths, correctly rounded; printed value within 4 ulp, exact for integers; (2) all line texts of length <=4 (thorough <=5) over {a, space, comma, period, !, apostrophe, é, 1, -, tab} plus whole-lexeme atoms after `x says ` / `x said `: output equals the text byte for byte; (3) PoeticNumberLiteral::compute_value on every digit string of length <=6 (thorough <=7) x every position of the decimal point, each digit realised as a word of that length, and again as word + suffix splits; (4) right-hand sides that start with a literal word, a negative number or a number literal of any size (235 numerals) are ordinary expressions; single words of 24..70 000 letters (plain, hyphenated, suffixed, 2-byte letters) and words whose letters change UTF-8 length when lower-cased, in three positions after three heads; (5) one fixed probe of the recorded finding (an open quote in a poetic string swallows the following lines); non-trivial = all cases except the trivially empty text; distinct = distinct text / literal",
    assumptions: &[
        "texts that leave a quote or parenthesis open on the line are outside the property's quantifier (recorded finding) and are not generated, except the one fixed probe",
        "tolerance: 4 units in the last place for numerals of <= 7 digits; integers below 2^53 must be exact",
    ],
    build,
    exhaustive: true,
};

/// (atom text, contribution) — contribution: Some(len) word of that counted length, None for
/// punctuation atoms handled by name
pub const ATOMS: &[(&str, usize)] = &[
    ("a", 1),
    ("abc", 3),
    ("abcdefghi", 9),
    ("abcdefghij", 10),
    ("abcdefghijk", 11),
    ("abcdefghijklmnopqrst", 20),
    ("abcdefghijklmnopqrstuvw", 23),
    ("ain't", 4),
    ("rockin'", 6),
    ("'cause", 5),
    ("abc's", 4),
    ("abc're", 5),
    ("abc's's", 5),
    ("all-out", 7),
    ("know-it-all", 11),
    ("catch-22", 8),
    ("mother-of-pearl", 15),
    ("is", 2),
    ("the", 3),
    ("nothing", 7),
    ("says", 4),
    ("minus", 5),
    ("été", 3),
    ("12", 2),
    (".", 0),
    (",", 0),
    ("ab.", 2),
    ("ABC", 3),
    ("AbCdEfGhIj", 10),
    ("abc!", 3),
    ("abc?!", 3),
    ("and", 3),
    ("or", 2),
    ("taking", 6),
    ("naïve", 5),
    ("çççççççççç", 10),
    ("ÀÉÎÕÜ-ß", 7),
    // many suffix parts on one word; the free-standing word 'n'
    ("a-b-c-d-e-f", 11),
    ("a-b-c-d-e-f-g-h-i's's", 19),
    ("'n'", 1),
    ("'N'", 1),
];

/// blanks other than one space between the words of a literal (second part of the number-words family)
pub const BLANKS: &[&str] = &["\t", "  ", "\u{a0}", "\u{2003}", "\u{3000}", " \u{a0}\t"];

pub const HEADS: &[&str] = &["x is ", "x was ", "x are ", "x's ", "the zed were ", "rock x like "];

fn first_ok(a: &str) -> bool {
    // literal words and numerals make the right-hand side an ordinary expression
    !matches!(a, "nothing" | "12")
}

/// the decimal numeral the atoms spell (None: no word at all)
fn numeral_of(atoms: &[usize]) -> Option<String> {
    let mut s = String::new();
    let mut dot = false;
    let mut words = 0;
    for a in atoms {
        let (text, len) = ATOMS[*a];
        match text {
            "." => {
                if !dot {
                    dot = true;
                    s.push('.');
                }
            }
            "," => {}
            "ab." => {
                s.push(char::from(b'0' + (len % 10) as u8));
                words += 1;
                if !dot {
                    dot = true;
                    s.push('.');
                }
            }
            _ => {
                s.push(char::from(b'0' + (len % 10) as u8));
                words += 1;
            }
        }
    }
    if words == 0 {
        None
    } else {
        Some(s)
    }
}

fn parse_numeral(n: &str) -> f64 {
    let mut t = n.to_string();
    if t.starts_with('.') {
        t.insert(0, '0');
    }
    if t.ends_with('.') {
        t.push('0');
    }
    t.parse().expect("numeral")
}

fn ulp_distance(a: f64, b: f64) -> u64 {
    if a == b {
        return 0;
    }
    if !a.is_finite() || !b.is_finite() || (a < 0.0) != (b < 0.0) {
        return u64::MAX;
    }
    let (x, y) = (a.abs().to_bits(), b.abs().to_bits());
    if x > y {
        x - y
    } else {
        y - x
    }
}

fn is_integer_numeral(n: &str) -> bool {
    match n.find('.') {
        None => true,
        Some(p) => n[p + 1..].chars().all(|c| c == '0'),
    }
}

fn judge_value(numeral: &str, got: f64) -> Result<(), String> {
    let want = parse_numeral(numeral);
    let d = ulp_distance(want, got);
    if is_integer_numeral(numeral) && want < 9007199254740992.0 {
        if d != 0 {
            return Err(format!("the words spell the integer {} but the value is {:?}", numeral, got));
        }
    } else if d > 4 {
        return Err(format!("the words spell {} = {:?} but the value is {:?} ({} ulp away)", numeral, want, got, if d == u64::MAX { "many".to_string() } else { d.to_string() }));
    }
    Ok(())
}

pub const STRING_SYMS: &[&str] = &["a", " ", ",", ".", "!", "'", "é", "1", "-", "\t"];
pub const STRING_ATOMS: &[&str] = &["is", "says", "\"q\"", "(c)", "it's", "a  b", "nothing", "x says y"];
pub const KNOWN_PROBE: &str = "x says it's \"great\nsay x\nsay 1\n";

/// digit patterns for long literals (8..=40 words)
pub const LONG_PATTERNS: &[&str] = &["1", "9", "1234567890", "50", "7", "0000012345678912", "00000000000000000009", "10000000000000000000000001"];

fn long_case(idx: u64) -> (String, String) {
    let pos = (idx % 4) as usize;
    let n = 8 + ((idx / 4) % 33) as usize;
    let pat = LONG_PATTERNS[(idx / (4 * 33)) as usize].as_bytes();
    let digits: Vec<u8> = (0..n).map(|i| pat[i % pat.len()] - b'0').collect();
    let point = match pos {
        0 => None,
        1 => Some(1),
        2 => Some(n / 2),
        _ => Some(n - 1),
    };
    let mut words = Vec::new();
    let mut numeral = String::new();
    for (i, d) in digits.iter().enumerate() {
        if point == Some(i) {
            words.push(".".to_string());
            numeral.push('.');
        }
        words.push("w".repeat(if *d == 0 { 10 } else { *d as usize }));
        numeral.push(char::from(b'0' + *d));
    }
    (format!("x is {}\nsay x\nrock y like {}\nsay y at 0\n", words.join(" "), words.join(" ")), numeral)
}

pub struct C11 {
    seqs: Space<(usize, Vec<usize>)>,
    blank_seqs: Space<(usize, Vec<usize>)>,
    texts: Space<(usize, String)>,
    digits_max: usize,
    digit_cases: u64,
    exprs: Vec<(String, String)>,
}

fn digit_space_size(max: usize) -> u64 {
    // for each length n: 10^n digit strings x (n + 2) positions of the point (none, 0..=n)
    (1..=max as u32).map(|n| 10u64.pow(n) * (n as u64 + 2)).sum()
}

fn digit_case(mut idx: u64, max: usize) -> (Vec<u8>, Option<usize>) {
    for n in 1..=max {
        let block = 10u64.pow(n as u32) * (n as u64 + 2);
        if idx < block {
            let pos = (idx % (n as u64 + 2)) as usize;
            let mut d = idx / (n as u64 + 2);
            let mut digits = vec![0u8; n];
            for j in (0..n).rev() {
                digits[j] = (d % 10) as u8;
                d /= 10;
            }
            return (digits, if pos == 0 { None } else { Some(pos - 1) });
        }
        idx -= block;
    }
    unreachable!()
}

fn build(tier: Tier) -> Box<dyn Check> {
    let atoms: Space<usize> = Space::of((0..ATOMS.len()).collect());
    let heads: Space<usize> = Space::of((0..HEADS.len()).collect());
    let seqs = heads.product(&atoms.seq_range(1, tier.pick(4, 5)), |h, v| (h, v));
    let blank_seqs = heads.product(&atoms.seq_range(2, 3), |h, v| (h, v));
    let says: Space<usize> = Space::of(vec![0, 1]);
    let texts = Space::union(vec![strings(STRING_SYMS, 0, tier.pick(4, 5)), Space::of(STRING_ATOMS.iter().map(|s| s.to_string()).collect())]);
    let texts = says.product(&texts, |h, t| (h, t));
    let digits_max = tier.pick(6, 7);
    Box::new(C11 {
        seqs,
        blank_seqs,
        texts,
        digits_max,
        digit_cases: digit_space_size(digits_max),
        exprs: {
            let mut e: Vec<(String, String)> = [
            ("x is nothing\nsay x\n", "null\n"),
            ("x is nowhere\nsay x\n", "null\n"),
            ("x is true\nsay x\n", "true\n"),
            ("x is right\nsay x\n", "true\n"),
            ("x is wrong\nsay x\n", "false\n"),
            ("x is mysterious\nsay x\n", "mysterious\n"),
            ("x is empty\nsay x plus \"!\"\n", "!\n"),
            ("x is silence\nsay x plus \"!\"\n", "!\n"),
            ("x is 5\nsay x\n", "5\n"),
            ("x is 5 plus 2\nsay x\n", "7\n"),
            ("x is -5\nsay x\n", "-5\n"),
            ("x is - 5\nsay x\n", "-5\n"),
            ("x is -2 times 3\nsay x\n", "-6\n"),
            ("put 4 into y\nx is -1 plus y\nsay x\n", "3\n"),
            ("x is -1 is less than 0\nsay x\n", "true\n"),
            ("x is -1 and true\nsay x\n", "true\n"),
            ("rock x with -2 times 3\nsay x at 0\n", "-6\n"),
            ("x is nothing is nothing\nsay x\n", "true\n"),
            ("x is 5 over 2\nsay x\n", "2.5\n"),
            ("x is \"a\" plus \"b\"\nsay x\n", "ab\n"),
            ("x is \"abc def\"\nsay x\n", "abc def\n"),
            ("x is 1.5 times 2\nsay x\n", "3\n"),
            ("x is nothing plus 1\nsay x\n", "1\n"),
            ("x's 5\nsay x\n", "5\n"),
            ("x is true and false\nsay x\n", "false\n"),
            ("rock x like a rolling stone\nsay x at 0\n", "175\n"),
            ("x is a lovestruck ladykiller\nsay x\n", "100\n"),
            ]
            .iter()
            .map(|(a, b): &(&str, &str)| (a.to_string(), b.to_string()))
            .collect();
            // words of every size class (one digit each: length modulo 10), alone / hyphenated / suffixed, and
            // words whose letters change their UTF-8 length when lower-cased, first / in the middle / last
            let mut special: Vec<(String, usize)> = Vec::new();
            for l in [24usize, 25, 99, 100, 127, 128, 129, 255, 256, 257, 260, 300, 511, 512, 1000, 4096, 65535, 65536, 65537, 70000] {
                special.push(("w".repeat(l), l));
                special.push((format!("{}-{}", "w".repeat(l / 2), "v".repeat(l - l / 2 - 1)), l));
                special.push((format!("{}'s", "w".repeat(l - 1)), l));
                special.push((format!("{}é", "é".repeat(l - 1)), l));
            }
            for (w, l) in [("\u{2126}MEGA's", 6usize), ("\u{212a}x're", 4), ("İİ's", 3), ("İab", 3), ("aİ-İb's", 6), ("ẞẞ're", 4), ("Ⱥȿ's", 3), ("\u{212b}ngström's", 9)] {
                special.push((w.to_string(), l));
            }
            for (w, l) in special {
                let d = l % 10;
                for head in ["x is ", "x's ", "the zed were "] {
                    let say = if head.starts_with("the") { "say the zed" } else { "say x" };
                    e.push((format!("{}abc {} de\n{}\n", head, w, say), format!("3{}2\n", d)));
                    e.push((format!("{}abc de {}\n{}\n", head, w, say), format!("32{}\n", d)));
                    e.push((format!("{}abc. {} de\n{}\n", head, w, say), format!("3.{}2\n", d)));
                }
                e.push((format!("rock x like abc {} de\nsay x at 0\n", w), format!("3{}2\n", d)));
                if d != 0 {
                    e.push((format!("x is {} abc\nsay x\n", w), format!("{}3\n", d)));
                }
            }
            // a right-hand side that starts with a number literal of any size is an ordinary expression
            for n in crate::refmodel::grammar::numerals() {
                e.push((format!("x is {}\nput {} into y\nsay x is y\n", n, n), "true\n".to_string()));
                e.push((format!("x is -{}\nput -{} into y\nsay x is y\n", n, n), "true\n".to_string()));
                e.push((format!("rock x with {}\nput {} into y\nsay x at 0 is y\n", n, n), "true\n".to_string()));
            }
            e
        },
    })
}

impl C11 {
    fn seq_text(&self, idx: u64) -> (String, Option<String>, bool) {
        if idx >= self.seqs.len() {
            let k = idx - self.seqs.len();
            let (h, v) = self.blank_seqs.get(k / BLANKS.len() as u64);
            return Self::seq_text_of(h, v, BLANKS[(k % BLANKS.len() as u64) as usize]);
        }
        let (h, v) = self.seqs.get(idx);
        Self::seq_text_of(h, v, " ")
    }
    fn seq_text_of(h: usize, v: Vec<usize>, blank: &str) -> (String, Option<String>, bool) {
        let body: Vec<&str> = v.iter().map(|a| ATOMS[*a].0).collect();
        let rock = HEADS[h].starts_with("rock");
        let text = format!("{}{}\n{}\n", HEADS[h], body.join(blank), if rock { "say x at 0" } else if HEADS[h].starts_with("the zed") { "say the zed" } else { "say x" });
        let valid = first_ok(ATOMS[v[0]].0);
        (text, if valid { numeral_of(&v) } else { None }, valid)
    }
    fn digit_literal(&self, idx: u64, split: bool) -> (PoeticNumberLiteral, String) {
        let (digits, point) = digit_case(idx, self.digits_max);
        let mut elems = Vec::new();
        let mut numeral = String::new();
        for (i, d) in digits.iter().enumerate() {
            if point == Some(i) {
                elems.push(PoeticNumberLiteralElem::Dot);
                numeral.push('.');
            }
            let len = if *d == 0 { 10 } else { *d as usize };
            if split && len >= 2 {
                // word + 's suffix (+ a hyphenated part for long words): same total counted length
                if len >= 6 {
                    elems.push(PoeticNumberLiteralElem::Word("w".repeat(len - 4)));
                    elems.push(PoeticNumberLiteralElem::WordSuffix("'s".into()));
                    elems.push(PoeticNumberLiteralElem::WordSuffix("-ab".into()));
                } else {
                    elems.push(PoeticNumberLiteralElem::Word(format!("{}'", "w".repeat(len - 1))));
                    elems.push(PoeticNumberLiteralElem::WordSuffix("'s".into()));
                }
            } else {
                elems.push(PoeticNumberLiteralElem::Word("w".repeat(len)));
            }
            numeral.push(char::from(b'0' + *d));
        }
        if point == Some(digits.len()) {
            elems.push(PoeticNumberLiteralElem::Dot);
            numeral.push('.');
        }
        (PoeticNumberLiteral { elems }, numeral)
    }
}

impl Check for C11 {
    fn families(&self) -> Vec<(String, u64)> {
        vec![
            ("number-words".into(), self.seqs.len() + self.blank_seqs.len() * BLANKS.len() as u64),
            ("string-texts".into(), self.texts.len()),
            ("digits".into(), self.digit_cases),
            ("digits-with-suffix-splits".into(), self.digit_cases),
            ("expression-instead".into(), self.exprs.len() as u64),
            ("recorded-finding-probe".into(), 1),
            ("long-literals".into(), (LONG_PATTERNS.len() * 33 * 4) as u64),
        ]
    }
    fn describe(&self, fam: usize, idx: u64) -> Value {
        match fam {
            0 => {
                let (t, n, _) = self.seq_text(idx);
                json!({"text": t, "numeral": n})
            }
            1 => {
                let (h, t) = self.texts.get(idx);
                json!({"text": format!("{}{}\nsay x\n", ["x says ", "x said "][h], t)})
            }
            2 | 3 => {
                let (l, n) = self.digit_literal(idx, fam == 3);
                json!({"text": format!("{:?}", l.elems), "numeral": n})
            }
            4 => json!({"text": self.exprs[idx as usize].0}),
            6 => {
                let (t, n) = long_case(idx);
                json!({"text": t, "numeral": n})
            }
            _ => json!({ "text": KNOWN_PROBE }),
        }
    }
    fn run_case(&self, fam: usize, idx: u64, ctx: &mut Ctx) {
        match fam {
            0 => {
                let (text, numeral, valid) = self.seq_text(idx);
                ctx.case_text(&text);
                if !valid {
                    ctx.count("skipped.first atom is a literal word (expression semantics)");
                    return;
                }
                let numeral = match numeral {
                    Some(n) => n,
                    None => {
                        ctx.count("skipped.no word in the literal");
                        return;
                    }
                };
                ctx.nontrivial();
                let r = subject::exec_text(&text, b"");
                ctx.observe_str(&r.observe());
                if let Some(e) = &r.parse_error {
                    ctx.violation("rejected", format!("poetic literal rejected: {} — {:?}", e, text));
                    return;
                }
                if let Err(e) = &r.result {
                    ctx.violation("wrong-value", format!("runtime error {:?} — {:?}", e, text));
                    return;
                }
                let out = r.stdout_str();
                match out.trim_end_matches('\n').parse::<f64>() {
                    Ok(v) => {
                        if let Err(m) = judge_value(&numeral, v) {
                            ctx.violation("wrong-value", format!("{} — program {:?} printed {:?}", m, text, out));
                        }
                    }
                    Err(_) => ctx.violation("wrong-value", format!("expected the number {} but the program printed {:?} — {:?}", numeral, out, text)),
                }
            }
            1 => {
                let (h, t) = self.texts.get(idx);
                let text = format!("{}{}\nsay x\n", ["x says ", "x said "][h], t);
                ctx.case_text(&text);
                if !t.is_empty() {
                    ctx.nontrivial();
                }
                let r = subject::exec_text(&text, b"");
                ctx.observe_str(&r.observe());
                let want = format!("{}\n", t);
                if r.parse_error.is_some() || r.result.is_err() || r.stdout_str() != want {
                    ctx.violation("wrong-string", format!("poetic string should be exactly {:?}; got {} — program {:?}", t, r.observe(), text));
                }
                // also when the text ends the input
                let text2 = format!("say 1\n{}{}", ["x says ", "x said "][h], t);
                match rrss::frontend::parser::parse(&text2) {
                    Ok(p) => {
                        let tree = crate::refmodel::rast::program(&p);
                        match tree.last() {
                            Some(crate::refmodel::rast::Stmt::PoeticStr { text: got, .. }) if *got == t => {}
                            other => ctx.violation("wrong-string", format!("poetic string at end of input should be {:?}, tree ends with {:?} — {:?}", t, other, text2)),
                        }
                    }
                    Err(e) => ctx.violation("wrong-string", format!("poetic string at end of input rejected: {} — {:?}", e, text2)),
                }
            }
            2 | 3 => {
                let (lit, numeral) = self.digit_literal(idx, fam == 3);
                ctx.nontrivial();
                let v = lit.compute_value();
                ctx.observe(&v.to_bits().to_le_bytes());
                if let Err(m) = judge_value(&numeral, v) {
                    ctx.violation("wrong-value", format!("compute_value: {} — elements {:?}", m, lit.elems));
                }
            }
            4 => {
                let (text, want) = &self.exprs[idx as usize];
                let (text, want) = (text.as_str(), want.as_str());
                ctx.case_text(text);
                ctx.nontrivial();
                let r = subject::exec_text(text, b"");
                ctx.observe_str(&r.observe());
                if r.parse_error.is_some() || r.result.is_err() || r.stdout_str() != want {
                    ctx.violation("wrong-value", format!("expected output {:?}, got {} — program {:?}", want, r.observe(), text));
                }
            }
            6 => {
                // long literals (8..40 words): executed through both poetic positions; relative
                // accuracy 1e-14 (the summation error grows with the number of digits), never a crash
                let (text, numeral) = long_case(idx);
                ctx.case_text(&text);
                ctx.nontrivial();
                let r = subject::exec_text(&text, b"");
                ctx.observe_str(&r.observe());
                if r.parse_error.is_some() || r.result.is_err() {
                    ctx.violation("wrong-value", format!("long poetic literal failed: {} — {:?}", r.observe(), text));
                    return;
                }
                let want = parse_numeral(&numeral);
                for line in r.stdout_str().lines() {
                    match line.parse::<f64>() {
                        Ok(v) if (v - want).abs() <= want.abs() * 1e-14 => {}
                        _ => ctx.violation("wrong-value", format!("the words spell {} = {:?} but the program printed {:?} — {:?}", numeral, want, line, text)),
                    }
                }
            }
            _ => {
                ctx.case_text(KNOWN_PROBE);
                ctx.nontrivial();
                let r = subject::exec_text(KNOWN_PROBE, b"");
                ctx.observe_str(&r.observe());
                if r.stdout_str() != "it's \"great\n1\n" {
                    ctx.violation("poetic-string-swallows-lines", format!("a poetic string that leaves a quote open swallows the following lines: got {}", r.observe()));
                }
            }
        }
    }
    fn static_coverage(&self) -> Value {
        json!({"heads": HEADS, "atoms": ATOMS.iter().map(|a| a.0).collect::<Vec<_>>(), "string_symbols": STRING_SYMS, "string_atoms": STRING_ATOMS, "max_digits": self.digits_max})
    }
}

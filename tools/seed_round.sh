#!/bin/bash
# seed_round.sh <Cxx> [extra checks]: verify both seeds of a property and run the owning check (+extras)
p="$1"; shift
for x in a b; do
  [ -f /tmp/seed-out/$p/$x.patch.diff ] || { echo "$p$x: no patch"; continue; }
  v=$(/verif/tools/verify_seed.sh /tmp/seed-out/$p $x 2>&1 | tail -1)
  echo "$p$x verify: $v"
  /verif/tools/try_seed.sh /tmp/seed-out/$p/$x.patch.diff $p "$@" 2>&1 | sed "s/^/$p$x try: /"
done

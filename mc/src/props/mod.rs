pub mod c01;
pub mod c12;
pub mod corpus;
pub mod lexemes;

use crate::engine::PropDef;

pub fn registry() -> &'static [PropDef] {
    static REG: &[PropDef] = &[c01::DEF, c12::DEF];
    REG
}

#!/usr/bin/env python3
# validates MANIFEST.json and every evidence file against the schemas
import json,sys,glob,jsonschema
ms=json.load(open('/root/.vp/MANIFEST.schema.json')); es=json.load(open('/root/.vp/EVIDENCE.schema.json'))
m=json.load(open('/verif/MANIFEST.json')); jsonschema.validate(m,ms)
ids={json.loads(l)['id'] for l in open('/verif/properties.jsonl')}
claimed={c['property_id'] for c in m['checks']}; na={n['property_id'] for n in m.get('not_applicable',[])}
assert claimed|na==ids and not (claimed&na), (sorted(ids-claimed-na), sorted(claimed&na))
bad=0
for c in m['checks']:
    f=c['evidence_file']
    try:
        e=json.load(open(f)); jsonschema.validate(e,es)
        assert e['property_id']==c['property_id'] and e['level']==c['level_claimed']['category']
        print(c['property_id'],'ok',e['tier'],e['coverage'].get('evaluations'),e['coverage'].get('distinct_nontrivial'),'viol',e.get('violations'),'wall',round(e['wall_s'],1))
    except Exception as ex:
        bad+=1; print(c['property_id'],'BAD',str(ex)[:300])
sys.exit(1 if bad else 0)

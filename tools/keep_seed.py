#!/usr/bin/env python3
# keep_seed.py <Cxx> <a|b> "<what it breaks>" "<what it needs to manifest>" "<detected by ...>"
import sys, os, shutil, json, glob
prop, x, breaks, needs, detected = sys.argv[1:6]
src=os.environ.get("ROOT","/tmp/seed-out")+f"/{prop}"
dst=f"/verif/seeded/{prop}{x}"
os.makedirs(dst, exist_ok=True)
shutil.copy(f"{src}/{x}.patch.diff", f"{dst}/patch.diff")
for d in glob.glob(f"{src}/{x}.demo.*"):
    shutil.copy(d, f"{dst}/demo{os.path.splitext(d)[1]}")
if os.path.exists(f"{src}/notes.md"):
    shutil.copy(f"{src}/notes.md", f"{dst}/agent-notes.md")
meta={
 "id": f"{prop}{x}",
 "property": prop,
 "breaks": breaks,
 "needs_to_manifest": needs,
 "origin": "written by an independent sub-agent that saw only the property text and a scratch worktree",
 "confirmed_by": [
   "tools/verify_seed.sh: patch applies to a clean worktree of /repo HEAD and touches only src/; pinned suite with the change: 217 of 217 stable tests pass; demonstration fails with the change and passes without it",
   f"tools/try_seed.sh: git -C /repo apply patch.diff; ./check <id> quick; git -C /repo checkout -- ."
 ],
 "result": detected,
}
json.dump(meta, open(f"{dst}/meta.json","w"), indent=1)
print("kept", dst)

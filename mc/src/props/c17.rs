//! C17 — the constant folder only reports values the interpreter would compute.
use crate::engine::space::Space;
use crate::engine::*;
use crate::refmodel::rast::*;
use crate::refmodel::to_ast;
use rrss::analysis::tools::{NumericConstantFolder, SimpleStringConstantFolder};
use rrss::analysis::visit::{VisitExpr, VisitProgram};
use rrss::exec::environment::Environment;
use rrss::exec::exec_stmt::ExecStmt;
use rrss::exec::produce_val::ProduceVal;
use rrss::exec::val::Val;
use serde_json::{json, Value};

pub const DEF: PropDef = PropDef {
    id: "C17",
    level: "exploration",
    rule: "all expression trees (built directly as AST values, so every tree shape incl. those text cannot spell) with <=3 leaves over the full leaf alphabet {0,1,2.5,3,1e308, four strings (plain, empty, with CR LF and line feed, with tab / backslash / non-ASCII / outer blanks), true, null, mysterious, variable, pronoun, subscript, call, roll, and roll / subscript applied to literals} and constructors {+ - * / with single and 2-element list operands, <, is, and, unary - and not on leaves, singly and doubled}, and all trees with <=4 leaves over the numeric core {0,1,2.5,1e308,x,-1,-x} (thorough: also 5 leaves over {0,2.5,x}) with + - * / and list operands, and all trees with <=3 leaves over 13 boundary constants {0,-0,1,0.1,3,5e-324,2^32,2^53+1,f64::MAX,1e-308,-(0),x,inf}; plus poetic literals as assignment right-hand sides; each expression is given to NumericConstantFolder and SimpleStringConstantFolder and evaluated by the real ProduceVal under three preludes that bind the variables differently; oracle: folder Ok(v) => evaluation yields exactly v (bitwise, NaN by class) under every prelude; folder must be Ok for every tree made only of number leaves, unary minus and + - * /; must be Err for every tree containing a read; non-trivial = expressions with an operator; distinct = distinct tree",
    assumptions: &["evaluation through the public ProduceVal visitor on an environment prepared by executing the prelude", "the reference predicate 'constant' / 'contains a read' is syntactic on the tree"],
    build,
    exhaustive: true,
};

fn num(n: f64) -> Expr {
    Expr::Prim(Prim::Lit(Lit::Num(n)))
}
fn var(n: &str) -> Prim {
    Prim::Ident(Ident::Name(Name::Simple(n.into())))
}

fn full_leaves() -> Vec<Expr> {
    vec![
        num(0.0),
        num(1.0),
        num(2.5),
        num(3.0),
        num(1e308),
        Expr::Prim(Prim::Lit(Lit::Str("s".into()))),
        Expr::Prim(Prim::Lit(Lit::Str("".into()))),
        // strings holding what a normalising step would touch: CR LF, tab, backslash, non-ASCII
        Expr::Prim(Prim::Lit(Lit::Str("a\r\nb\n".into()))),
        Expr::Prim(Prim::Lit(Lit::Str(" é\t\\😀 ".into()))),
        Expr::Prim(Prim::Lit(Lit::Bool(true))),
        Expr::Prim(Prim::Lit(Lit::Null)),
        Expr::Prim(Prim::Lit(Lit::Mysterious)),
        Expr::Prim(var("x")),
        Expr::Prim(Prim::Ident(Ident::Pronoun)),
        Expr::Prim(Prim::Sub(Box::new(var("w")), Box::new(Prim::Lit(Lit::Num(0.0))))),
        Expr::Prim(Prim::Call(Name::Simple("f".into()), vec![num(1.0)])),
        Expr::Prim(Prim::Pop(Box::new(var("q")))),
        // reads whose operands are all literals: still reads
        Expr::Prim(Prim::Pop(Box::new(Prim::Lit(Lit::Num(5.0))))),
        Expr::Prim(Prim::Pop(Box::new(Prim::Lit(Lit::Str("s".into()))))),
        Expr::Prim(Prim::Pop(Box::new(Prim::Pop(Box::new(Prim::Lit(Lit::Num(5.0))))))),
        Expr::Prim(Prim::Sub(Box::new(Prim::Lit(Lit::Num(5.0))), Box::new(Prim::Lit(Lit::Num(0.0))))),
        Expr::Prim(Prim::Sub(Box::new(Prim::Lit(Lit::Str("s".into()))), Box::new(Prim::Lit(Lit::Num(0.0))))),
    ]
}

fn bins(ops: &[BinOp], a: &Space<Expr>, b: &Space<Expr>) -> Space<Expr> {
    let o: Space<BinOp> = Space::of(ops.to_vec());
    o.product(a, |o, a| (o, a)).product(b, |(o, a), b| Expr::Bin(o, Box::new(a), vec![b]))
}
fn bins_list(ops: &[BinOp], a: &Space<Expr>, b: &Space<Expr>, c: &Space<Expr>) -> Space<Expr> {
    let o: Space<BinOp> = Space::of(ops.to_vec());
    o.product(a, |o, a| (o, a)).product(b, |(o, a), b| (o, a, b)).product(c, |(o, a, b), c| Expr::Bin(o, Box::new(a), vec![b, c]))
}

const FULL_OPS: &[BinOp] = &[BinOp::Plus, BinOp::Minus, BinOp::Times, BinOp::Over, BinOp::Lt, BinOp::Eq, BinOp::And];
const NUM_OPS: &[BinOp] = &[BinOp::Plus, BinOp::Minus, BinOp::Times, BinOp::Over];

fn full_space() -> Space<Expr> {
    let l: Space<Expr> = Space::of(full_leaves());
    let u: Space<Expr> = Space::union(vec![l.clone(), l.map(|e| Expr::Un(UnOp::Neg, Box::new(e))), l.map(|e| Expr::Un(UnOp::Not, Box::new(e)))]);
    // two prefix operators in a row, equal and different
    let u2: Space<Expr> = Space::union(vec![u.map(|e| Expr::Un(UnOp::Neg, Box::new(e))), u.map(|e| Expr::Un(UnOp::Not, Box::new(e)))]);
    let e2u2 = bins(FULL_OPS, &u2, &l);
    let e2u = bins(FULL_OPS, &u, &u);
    let e2 = bins(FULL_OPS, &l, &l);
    let e2n = e2.map(|e| Expr::Un(UnOp::Neg, Box::new(e)));
    Space::union(vec![u.clone(), u2, e2u2, e2u, e2n, bins(FULL_OPS, &e2, &l), bins(FULL_OPS, &l, &e2), bins_list(FULL_OPS, &l, &l, &l)])
}

fn numeric_space(leaves: Vec<Expr>, max: usize) -> Space<Expr> {
    let n1: Space<Expr> = Space::of(leaves);
    let mut n: Vec<Space<Expr>> = vec![Space::empty(), n1];
    for k in 2..=max {
        let mut parts = Vec::new();
        for a in 1..k {
            parts.push(bins(NUM_OPS, &n[a], &n[k - a]));
        }
        for a in 1..k {
            for b in 1..(k - a) {
                let c = k - a - b;
                parts.push(bins_list(NUM_OPS, &n[a], &n[b], &n[c]));
            }
        }
        n.push(Space::union(parts));
    }
    Space::union(n[1..].to_vec())
}

pub const PRELUDES: &[&str] = &[
    "put 1 into x\nrock w with 5\nrock q with 7, 8, 9\nf takes k\ngive back k\n\nput 2 into y\n",
    "put \"s\" into x\nrock w with \"t\"\nrock q with \"u\", 8, 9\nf takes k\ngive back 4\n\nput x into y\n",
    "put 2.5 into x\nrock w with x\nrock q with x, x, x\nf takes k\ngive back x\n\nput x into x\n",
];

pub const POETIC: &[&[&str]] = &[&["a"], &["abc", "de"], &["a", ".", "bc"], &["abcdefghij"], &["ab", ".", "c", ".", "d"], &[".", "abc"], &["a", "'s"], &["abcde", "-fg", "h"], &["rock'n'roll"], &["o'clock"], &["ain't"], &["'cause"], &["rockin'"], &["ain't", "o'clock"], &["été"], &["o'clock", "."]];

pub struct C17 {
    fams: Vec<(String, Space<Expr>)>,
}

fn build(tier: Tier) -> Box<dyn Check> {
    let core = vec![num(0.0), num(1.0), num(2.5), num(1e308), Expr::Prim(var("x")), Expr::Un(UnOp::Neg, Box::new(num(1.0))), Expr::Un(UnOp::Neg, Box::new(Expr::Prim(var("x"))))];
    // boundary constants: negative zero (as a literal the text cannot spell), a value that is not a binary
    // fraction, the smallest denormal, integers beyond 2^32 and 2^53, the largest finite number, and the infinite
    // literal that a numeral such as 1e999 denotes
    let wide = vec![num(0.0), num(-0.0), num(1.0), num(0.1), num(3.0), num(5e-324), num(4294967296.0), num(9007199254740993.0), num(f64::MAX), num(1e-308), Expr::Un(UnOp::Neg, Box::new(num(0.0))), Expr::Prim(var("x")), num(f64::INFINITY)];
    let mut fams = vec![("full-alphabet".to_string(), full_space()), ("numeric-core".to_string(), numeric_space(core, 4)), ("boundary-constants".to_string(), numeric_space(wide, 3))];
    if tier == Tier::Thorough {
        fams.push(("numeric-core-5-leaves".to_string(), numeric_space(vec![num(0.0), num(2.5), Expr::Prim(var("x"))], 5)));
    }
    Box::new(C17 { fams })
}

fn has_read(e: &Expr) -> bool {
    fn p(p: &Prim) -> bool {
        !matches!(p, Prim::Lit(_))
    }
    match e {
        Expr::Prim(x) => p(x),
        Expr::Bin(_, l, rs) => has_read(l) || rs.iter().any(has_read),
        Expr::Un(_, x) => has_read(x),
    }
}

fn pure_numeric(e: &Expr) -> bool {
    match e {
        Expr::Prim(Prim::Lit(Lit::Num(_))) => true,
        Expr::Prim(_) => false,
        Expr::Bin(op, l, rs) => matches!(op, BinOp::Plus | BinOp::Minus | BinOp::Times | BinOp::Over) && pure_numeric(l) && rs.iter().all(pure_numeric),
        Expr::Un(UnOp::Neg, x) => pure_numeric(x),
        Expr::Un(UnOp::Not, _) => false,
    }
}

fn has_operator(e: &Expr) -> bool {
    !matches!(e, Expr::Prim(_))
}

/// evaluate under a prelude with the real interpreter; Err(message) for a runtime error
fn evaluate(prelude: &str, e: &rrss::frontend::ast::Expression) -> Result<Val, String> {
    let p = rrss::frontend::parser::parse(prelude).expect("prelude parses");
    let mut out = Vec::new();
    let env = Environment::refcell_raw(&b""[..], &mut out);
    ExecStmt::new(&env).visit_program(&p).map_err(|e| e.to_string())?;
    let r = ProduceVal::new(&env).visit_expression(e).map(|v| v.0).map_err(|e| e.to_string());
    r
}

impl Check for C17 {
    fn families(&self) -> Vec<(String, u64)> {
        let mut v: Vec<(String, u64)> = self.fams.iter().map(|(n, s)| (n.clone(), s.len())).collect();
        v.push(("poetic-literals".into(), POETIC.len() as u64));
        v
    }
    fn describe(&self, fam: usize, idx: u64) -> Value {
        if fam == self.fams.len() {
            json!({"text": format!("poetic literal {:?}", POETIC[idx as usize])})
        } else {
            json!({"text": format!("{:?}", self.fams[fam].1.get(idx))})
        }
    }
    fn run_case(&self, fam: usize, idx: u64, ctx: &mut Ctx) {
        if fam == self.fams.len() {
            // poetic literal as the right-hand side of an assignment
            ctx.nontrivial();
            let elems: Vec<PElem> = POETIC[idx as usize].iter().map(|w| if *w == "." { PElem::Dot } else if w.starts_with('\'') || w.starts_with('-') { PElem::Suffix(w.to_string()) } else { PElem::Word(w.to_string()) }).collect();
            let lit = to_ast::pelems(&elems);
            let rhs = rrss::frontend::ast::PoeticNumberAssignmentRHS::PoeticNumberLiteral(lit);
            match NumericConstantFolder.visit_poetic_number_assignment_rhs(&rhs) {
                Ok(c) => {
                    let p = rrss::frontend::parser::parse("say 1\n").unwrap();
                    let mut out = Vec::new();
                    let env = Environment::refcell_raw(&b""[..], &mut out);
                    let _ = ExecStmt::new(&env).visit_program(&p);
                    match ProduceVal::new(&env).visit_poetic_number_assignment_rhs(&rhs) {
                        Ok(v) => {
                            ctx.observe_str(&format!("{:?}", v.0));
                            if !matches!(v.0, Val::Number(n) if n.to_bits() == c.value.to_bits()) {
                                ctx.violation("folder-disagrees", format!("folder says {:?}, interpreter computes {:?} for poetic literal {:?}", c.value, v.0, POETIC[idx as usize]));
                            }
                        }
                        Err(e) => ctx.violation("folder-disagrees", format!("folder says {:?}, interpreter fails with {} for poetic literal {:?}", c.value, e, POETIC[idx as usize])),
                    }
                }
                Err(e) => ctx.violation("not-folded", format!("a poetic literal must fold; got {:?} for {:?}", e, POETIC[idx as usize])),
            }
            if SimpleStringConstantFolder.visit_poetic_number_assignment_rhs(&rhs).is_ok() {
                ctx.violation("folder-disagrees", format!("string folder reports a value for the poetic number literal {:?}", POETIC[idx as usize]));
            }
            return;
        }
        let e = self.fams[fam].1.get(idx);
        if has_operator(&e) {
            ctx.nontrivial();
        }
        let ast = to_ast::expr(&e, 1);
        let folded = NumericConstantFolder.visit_expression(&ast);
        let sfolded = SimpleStringConstantFolder.visit_expression(&ast);
        ctx.observe_str(&format!("{:?}|{:?}", folded.as_ref().map(|c| c.value.to_bits()), sfolded));
        match &folded {
            Ok(c) => {
                ctx.count("folded_numeric");
                if has_read(&e) {
                    ctx.violation("folded-a-read", format!("folder reports {:?} for an expression that reads program state: {:?}", c.value, e));
                }
                for (i, pre) in PRELUDES.iter().enumerate() {
                    match evaluate(pre, &ast) {
                        Ok(Val::Number(n)) if n.to_bits() == c.value.to_bits() || (n.is_nan() && c.value.is_nan()) => {}
                        other => {
                            ctx.violation("folder-disagrees", format!("folder reports {:?} but under prelude {} the interpreter yields {:?} — expression {:?}", c.value, i, other, e));
                            break;
                        }
                    }
                }
            }
            Err(err) => {
                ctx.count("not_folded");
                if pure_numeric(&e) {
                    ctx.violation("not-folded", format!("an expression built only from number literals, unary minus and + - * / must fold; got {:?} — {:?}", err, e));
                }
            }
        }
        if let Ok(s) = &sfolded {
            ctx.count("folded_string");
            if has_read(&e) {
                ctx.violation("folded-a-read", format!("string folder reports {:?} for an expression that reads program state: {:?}", s.value, e));
            }
            for (i, pre) in PRELUDES.iter().enumerate() {
                match evaluate(pre, &ast) {
                    Ok(Val::String(v)) if *v == s.value => {}
                    other => {
                        ctx.violation("folder-disagrees", format!("string folder reports {:?} but under prelude {} the interpreter yields {:?} — expression {:?}", s.value, i, other, e));
                        break;
                    }
                }
            }
        } else if let Expr::Prim(Prim::Lit(Lit::Str(_))) = &e {
            ctx.violation("not-folded", format!("a plain string literal must fold as a string constant: {:?}", e));
        }
    }
    fn static_coverage(&self) -> Value {
        json!({"preludes": PRELUDES, "poetic_literals": POETIC})
    }
}

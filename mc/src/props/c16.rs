//! C16 — visitors see every node exactly once, in order, and stop at the first error.
use super::c02;
use crate::engine::*;
use crate::refmodel::rast::*;
use crate::refmodel::to_ast;
use rrss::analysis::visit::{self, Combine, ExprVisitorRunner, Visit, VisitExpr, VisitProgram};
use rrss::frontend::ast as a;
use rrss::frontend::source_range::SourceRange;
use serde_json::{json, Value};
use std::rc::Rc;

pub const DEF: PropDef = PropDef {
    id: "C16",
    level: "exploration",
    rule: "programs built directly as AST values (public fields): the whole canonical corpus of the reference grammar (every statement kind with every slot filled from 14 expression shapes, operator chains, lists, calls, subscripts), every block-nesting shape up to 5 (thorough 7) nodes, plus trees the parser never produces (empty else / then / loop / function blocks, functions with 0..3 parameters, poetic literals with word / suffix / dot elements in rock and assignment); for each program every failing position k = 0..n-1 of the leaf callbacks plus 'never'; a recording visitor that overrides only the eight leaf callbacks runs through ExprVisitorRunner, its Output is the free monoid (event list); expected = reference traversal of the tree in field order; checks: returned list = side-effect log = expected; failing at k returns Err(k) unchanged with log = expected[..=k]; second family: 15 probe visitors, each overriding the eight leaves plus exactly ONE interior callback of VisitExpr (assignment lhs/rhs, poetic rhs, poetic literal, push rhs, pop expression, expression list, expression, primary, binary, unary, subscript, call, identifier, variable name), for every program x every failing entry of that callback plus never: every typed node of that kind must be presented exactly once, in order relative to the leaves (typed reference walk over the public AST, cross-checked against the RAst walk); third family: an Output whose Default is the visible one-element list [Start]: between consecutive leaves the result must contain at least as many Starts as pure list folds (program blocks, block statements, expression list, poetic literal, parameters) begin there; fourth family: an Output that is the free magma (combine(a, b) = (a b)): the result must be what folding every node's children left to right gives — ((d? c1) c2) .. cn with the default optional at the start and absent parts folded in as a default or left out; fifth family: a statement-level visitor (VisitProgram itself, no runner) that overrides only the callbacks of the 15 statement kinds without blocks and reaches every block through the default traversal, for every program x every failing statement plus never: the statements must be presented once each in source order, a failure returned unchanged with nothing visited after it; non-trivial = programs with at least 2 leaf events / at least one entry of the probed kind; distinct = distinct (program, k)",
    assumptions: &["the reference traversal (children in field order) is written against the RAst mirror of the public AST", "mutation operator and rounding direction callbacks belong to VisitProgram, not to the expression visitor, and are not observable through the runner"],
    build,
    exhaustive: true,
};

#[derive(Clone, Debug, PartialEq)]
pub enum Ev {
    Lit(String),
    Pronoun,
    Simple(String),
    Common(String, String),
    Proper(Vec<String>),
    Bin(String),
    Un(String),
    PElem(String),
    /// an interior callback was entered (probe visitors only)
    Enter(&'static str),
    /// the Default of the marked output type (fold-origin visitor only)
    Start,
}

#[derive(Clone, Debug, Default, PartialEq)]
pub struct Events(pub Vec<Ev>);

impl Combine for Events {
    fn combine(mut self, other: Self) -> Self {
        self.0.extend(other.0);
        self
    }
}

pub struct Recorder {
    pub log: Vec<Ev>,
    pub fail_at: Option<usize>,
}

impl Recorder {
    fn leaf(&mut self, e: Ev) -> Result<Events, usize> {
        let k = self.log.len();
        self.log.push(e.clone());
        if self.fail_at == Some(k) {
            Err(k)
        } else {
            Ok(Events(vec![e]))
        }
    }
}

impl Visit for Recorder {
    type Output = Events;
    type Error = usize;
}

macro_rules! leaf_callbacks {
    () => {
        fn visit_poetic_number_literal_elem(&mut self, p: &a::PoeticNumberLiteralElem) -> visit::Result<Self> {
            self.leaf(Ev::PElem(format!("{:?}", p)))
        }
        fn visit_binary_operator(&mut self, o: a::BinaryOperator) -> visit::Result<Self> {
            self.leaf(Ev::Bin(format!("{:?}", o)))
        }
        fn visit_unary_operator(&mut self, o: a::UnaryOperator) -> visit::Result<Self> {
            self.leaf(Ev::Un(format!("{:?}", o)))
        }
        fn visit_literal_expression(&mut self, e: &a::WithRange<a::LiteralExpression>) -> visit::Result<Self> {
            self.leaf(Ev::Lit(format!("{:?}", e.0)))
        }
        fn visit_pronoun(&mut self, _: SourceRange) -> visit::Result<Self> {
            self.leaf(Ev::Pronoun)
        }
        fn visit_simple_identifier(&mut self, n: a::WithRange<&a::SimpleIdentifier>) -> visit::Result<Self> {
            self.leaf(Ev::Simple(n.0 .0.clone()))
        }
        fn visit_common_identifier(&mut self, n: a::WithRange<&a::CommonIdentifier>) -> visit::Result<Self> {
            self.leaf(Ev::Common(n.0 .0.clone(), n.0 .1.clone()))
        }
        fn visit_proper_identifier(&mut self, n: a::WithRange<&a::ProperIdentifier>) -> visit::Result<Self> {
            self.leaf(Ev::Proper(n.0 .0.clone()))
        }
    };
}

impl VisitExpr for Recorder {
    leaf_callbacks!();
}

// ---------------------------------------------------------------- probe visitors: the eight leaves plus ONE interior callback
// Each probe overrides exactly one interior callback of VisitExpr: it records that the node was
// presented, then hands the node's children on in field order (written here from ast.rs, not copied
// from visit.rs). All other interior callbacks keep the crate's defaults, so a probe observes both the
// runner's statement-level entry points and the defaults' hand-over between expression nodes.
macro_rules! probe {
    ($name:ident, $kind:expr, fn $method:ident(&mut $slf:ident, $arg:ident : $ty:ty) $body:block) => {
        pub struct $name(pub Recorder);
        impl $name {
            fn leaf(&mut self, e: Ev) -> Result<Events, usize> {
                self.0.leaf(e)
            }
        }
        impl Visit for $name {
            type Output = Events;
            type Error = usize;
        }
        impl VisitExpr for $name {
            leaf_callbacks!();
            fn $method(&mut $slf, $arg: $ty) -> visit::Result<Self> {
                let head = $slf.leaf(Ev::Enter($kind))?;
                let rest: Events = $body;
                Ok(head.combine(rest))
            }
        }
    };
}

probe!(PAssignmentLhs, "assignment_lhs", fn visit_assignment_lhs(&mut self, x: &a::AssignmentLHS) {
    match x {
        a::AssignmentLHS::Identifier(i) => self.visit_identifier(i)?,
        a::AssignmentLHS::ArraySubscript(s) => self.visit_array_subscript(s)?,
    }
});
probe!(PAssignmentRhs, "assignment_rhs", fn visit_assignment_rhs(&mut self, x: &a::AssignmentRHS) {
    match x {
        a::AssignmentRHS::ExpressionList(e) => self.visit_expression_list(e)?,
    }
});
probe!(PPoeticRhs, "poetic_number_assignment_rhs", fn visit_poetic_number_assignment_rhs(&mut self, x: &a::PoeticNumberAssignmentRHS) {
    match x {
        a::PoeticNumberAssignmentRHS::Expression(e) => self.visit_expression(e)?,
        a::PoeticNumberAssignmentRHS::PoeticNumberLiteral(p) => self.visit_poetic_number_literal(p)?,
    }
});
probe!(PPoeticLiteral, "poetic_number_literal", fn visit_poetic_number_literal(&mut self, x: &a::PoeticNumberLiteral) {
    let mut acc = Events::default();
    for e in &x.elems {
        acc = acc.combine(self.visit_poetic_number_literal_elem(e)?);
    }
    acc
});
probe!(PPushRhs, "array_push_rhs", fn visit_array_push_rhs(&mut self, x: &a::ArrayPushRHS) {
    match x {
        a::ArrayPushRHS::ExpressionList(e) => self.visit_expression_list(e)?,
        a::ArrayPushRHS::PoeticNumberLiteral(p) => self.visit_poetic_number_literal(p)?,
    }
});
probe!(PPopExpr, "array_pop_expr", fn visit_array_pop_expr(&mut self, x: &a::ArrayPopExpr) {
    self.visit_primary_expression(&x.array)?
});
probe!(PExpressionList, "expression_list", fn visit_expression_list(&mut self, x: &a::ExpressionList) {
    let mut acc = self.visit_expression(&x.first)?;
    for e in &x.rest {
        acc = acc.combine(self.visit_expression(e)?);
    }
    acc
});
probe!(PExpression, "expression", fn visit_expression(&mut self, x: &a::Expression) {
    match x {
        a::Expression::PrimaryExpression(e) => self.visit_primary_expression(e)?,
        a::Expression::BinaryExpression(e) => self.visit_binary_expression(e)?,
        a::Expression::UnaryExpression(e) => self.visit_unary_expression(e)?,
    }
});
probe!(PPrimary, "primary_expression", fn visit_primary_expression(&mut self, x: &a::PrimaryExpression) {
    match x {
        a::PrimaryExpression::Literal(e) => self.visit_literal_expression(e)?,
        a::PrimaryExpression::Identifier(i) => self.visit_identifier(i)?,
        a::PrimaryExpression::ArraySubscript(s) => self.visit_array_subscript(s)?,
        a::PrimaryExpression::FunctionCall(f) => self.visit_function_call(f)?,
        a::PrimaryExpression::ArrayPop(p) => self.visit_array_pop_expr(p)?,
    }
});
probe!(PBinary, "binary_expression", fn visit_binary_expression(&mut self, x: &a::BinaryExpression) {
    let l = self.visit_expression(&x.lhs)?;
    let o = self.visit_binary_operator(x.operator)?;
    let r = self.visit_expression_list(&x.rhs)?;
    l.combine(o).combine(r)
});
probe!(PUnary, "unary_expression", fn visit_unary_expression(&mut self, x: &a::UnaryExpression) {
    let o = self.visit_unary_operator(x.operator)?;
    let e = self.visit_expression(&x.operand)?;
    o.combine(e)
});
probe!(PSubscript, "array_subscript", fn visit_array_subscript(&mut self, x: &a::ArraySubscript) {
    let l = self.visit_primary_expression(&x.array)?;
    let r = self.visit_primary_expression(&x.subscript)?;
    l.combine(r)
});
probe!(PCall, "function_call", fn visit_function_call(&mut self, x: &a::FunctionCall) {
    let mut acc = self.visit_variable_name(x.name.as_ref())?;
    for e in &x.args {
        acc = acc.combine(self.visit_expression(e)?);
    }
    acc
});
probe!(PIdentifier, "identifier", fn visit_identifier(&mut self, x: &a::WithRange<a::Identifier>) {
    match &x.0 {
        a::Identifier::VariableName(n) => self.visit_variable_name(a::WithRange(n, x.1.clone()))?,
        a::Identifier::Pronoun => self.visit_pronoun(x.1.clone())?,
    }
});
probe!(PVariableName, "variable_name", fn visit_variable_name(&mut self, x: a::WithRange<&a::VariableName>) {
    match x.0 {
        a::VariableName::Simple(n) => self.visit_simple_identifier(a::WithRange(n, x.1.clone()))?,
        a::VariableName::Common(n) => self.visit_common_identifier(a::WithRange(n, x.1.clone()))?,
        a::VariableName::Proper(n) => self.visit_proper_identifier(a::WithRange(n, x.1.clone()))?,
    }
});

pub const PROBES: &[&str] = &[
    "assignment_lhs",
    "assignment_rhs",
    "poetic_number_assignment_rhs",
    "poetic_number_literal",
    "array_push_rhs",
    "array_pop_expr",
    "expression_list",
    "expression",
    "primary_expression",
    "binary_expression",
    "unary_expression",
    "array_subscript",
    "function_call",
    "identifier",
    "variable_name",
];

/// run probe number `k` over a program: (result, log)
fn run_probe(k: usize, ast: &a::Program, fail_at: Option<usize>) -> (Result<Events, usize>, Vec<Ev>) {
    macro_rules! go {
        ($t:ident) => {{
            let mut runner = ExprVisitorRunner::with_inner($t(Recorder { log: Vec::new(), fail_at }));
            let r = runner.visit_program(ast);
            (r, runner.inner().0.log)
        }};
    }
    match k {
        0 => go!(PAssignmentLhs),
        1 => go!(PAssignmentRhs),
        2 => go!(PPoeticRhs),
        3 => go!(PPoeticLiteral),
        4 => go!(PPushRhs),
        5 => go!(PPopExpr),
        6 => go!(PExpressionList),
        7 => go!(PExpression),
        8 => go!(PPrimary),
        9 => go!(PBinary),
        10 => go!(PUnary),
        11 => go!(PSubscript),
        12 => go!(PCall),
        13 => go!(PIdentifier),
        _ => go!(PVariableName),
    }
}

// ---------------------------------------------------------------- fold-origin visitor: an Output whose Default is visible
/// event list whose Default is the one-element list [Start]: every fold that starts from the default
/// leaves a Start in front of its first result
#[derive(Clone, Debug, PartialEq)]
pub struct Marked(pub Vec<Ev>);
impl Default for Marked {
    fn default() -> Self {
        Marked(vec![Ev::Start])
    }
}
impl Combine for Marked {
    fn combine(mut self, other: Self) -> Self {
        self.0.extend(other.0);
        self
    }
}
pub struct MarkedRecorder;
impl MarkedRecorder {
    fn leaf(&mut self, e: Ev) -> Result<Marked, usize> {
        Ok(Marked(vec![e]))
    }
}
impl Visit for MarkedRecorder {
    type Output = Marked;
    type Error = usize;
}
impl VisitExpr for MarkedRecorder {
    leaf_callbacks!();
}

// ---------------------------------------------------------------- fold grouping: an output that remembers how it was combined
/// the free magma: combine(a, b) = (a b). Unlike a list it shows whether a fold went left to right
#[derive(Clone, Debug, PartialEq)]
pub enum CT {
    Def,
    Leaf(Ev),
    Comb(Box<CT>, Box<CT>),
}
impl Default for CT {
    fn default() -> Self {
        CT::Def
    }
}
impl Combine for CT {
    fn combine(self, other: Self) -> Self {
        CT::Comb(Box::new(self), Box::new(other))
    }
}
pub struct TreeRecorder;
impl TreeRecorder {
    fn leaf(&mut self, e: Ev) -> Result<CT, usize> {
        Ok(CT::Leaf(e))
    }
}
impl Visit for TreeRecorder {
    type Output = CT;
    type Error = usize;
}
impl VisitExpr for TreeRecorder {
    leaf_callbacks!();
}

/// what a node folds, in field order; Absent = an optional part that is not there (or a callback that
/// yields nothing), which an implementation may fold in as a default or leave out
#[derive(Clone, Debug)]
pub enum Sh {
    Leaf(Ev),
    Absent,
    Node(Vec<Sh>),
}

/// t is the result for s when every node folds its children left to right: ((d? c1) c2) ... cn
fn shape_matches(t: &CT, s: &Sh) -> bool {
    match s {
        Sh::Leaf(e) => *t == CT::Leaf(e.clone()),
        Sh::Absent => *t == CT::Def,
        Sh::Node(ch) => fold_matches(t, ch),
    }
}
fn fold_matches(t: &CT, ch: &[Sh]) -> bool {
    let (last, rest) = match ch.split_last() {
        None => return *t == CT::Def,
        Some(x) => x,
    };
    if matches!(last, Sh::Absent) && fold_matches(t, rest) {
        return true;
    }
    if let CT::Comb(l, r) = t {
        // the cheap side first: with nothing left to fold, l can only be the default
        let ok = if rest.is_empty() { **l == CT::Def && shape_matches(r, last) } else { shape_matches(r, last) && fold_matches(l, rest) };
        if ok {
            return true;
        }
    }
    rest.iter().all(|c| matches!(c, Sh::Absent)) && shape_matches(t, last)
}

struct ShapeOf;
impl ShapeOf {
    fn program(&self, p: &a::Program) -> Sh {
        Sh::Node(p.code.iter().map(|b| self.block(b)).collect())
    }
    fn block(&self, b: &a::Block) -> Sh {
        match b {
            a::Block::Empty(_) => Sh::Node(vec![]),
            a::Block::NonEmpty(ss) => Sh::Node(ss.iter().map(|s| self.stmt(s)).collect()),
        }
    }
    fn opt<T>(&self, o: Option<&T>, f: impl Fn(&T) -> Sh) -> Sh {
        o.map_or(Sh::Absent, f)
    }
    fn stmt(&self, s: &a::Statement) -> Sh {
        use a::Statement as S;
        match s {
            S::Assignment(x) => Sh::Node(vec![
                self.lhs(&x.dest),
                x.operator.map_or(Sh::Absent, |o| Sh::Leaf(Ev::Bin(format!("{:?}", o)))),
                match &x.value {
                    a::AssignmentRHS::ExpressionList(e) => Sh::Node(vec![self.expression_list(e)]),
                },
            ]),
            S::PoeticAssignment(a::PoeticAssignment::Number(x)) => Sh::Node(vec![
                self.lhs(&x.dest),
                match &x.rhs {
                    a::PoeticNumberAssignmentRHS::Expression(e) => Sh::Node(vec![self.expression(e)]),
                    a::PoeticNumberAssignmentRHS::PoeticNumberLiteral(p) => Sh::Node(vec![self.poetic(p)]),
                },
            ]),
            S::PoeticAssignment(a::PoeticAssignment::String(x)) => Sh::Node(vec![self.lhs(&x.dest)]),
            S::If(x) => Sh::Node(vec![self.expression(&x.condition), self.block(&x.then_block), self.opt(x.else_block.as_ref(), |b| self.block(b))]),
            S::While(x) => Sh::Node(vec![self.expression(&x.condition), self.block(&x.block)]),
            S::Until(x) => Sh::Node(vec![self.expression(&x.condition), self.block(&x.block)]),
            S::Inc(x) => Sh::Node(vec![self.identifier(&x.dest)]),
            S::Dec(x) => Sh::Node(vec![self.identifier(&x.dest)]),
            S::Input(x) => Sh::Node(vec![self.opt(x.dest.opt(), |l| self.lhs(l))]),
            S::Output(x) => Sh::Node(vec![self.expression(&x.value)]),
            S::Return(x) => Sh::Node(vec![self.expression(&x.value)]),
            S::Mutation(x) => Sh::Node(vec![Sh::Absent, self.primary(&x.operand), self.opt(x.dest.as_ref(), |l| self.lhs(l)), self.opt(x.param.as_ref(), |e| self.expression(e))]),
            S::Rounding(x) => Sh::Node(vec![Sh::Absent, self.expression(&x.operand)]),
            S::Continue(_) | S::Break(_) => Sh::Node(vec![]),
            S::ArrayPush(x) => Sh::Node(vec![
                self.primary(&x.array),
                self.opt(x.value.as_ref(), |v| match v {
                    a::ArrayPushRHS::ExpressionList(e) => Sh::Node(vec![self.expression_list(e)]),
                    a::ArrayPushRHS::PoeticNumberLiteral(p) => Sh::Node(vec![self.poetic(p)]),
                }),
            ]),
            S::ArrayPop(x) => Sh::Node(vec![self.pop_expr(&x.expr), self.opt(x.dest.as_ref(), |l| self.lhs(l))]),
            S::Function(x) => Sh::Node(vec![
                self.variable_name(&x.name.0),
                Sh::Node(vec![Sh::Node(x.data.params.iter().map(|p| self.variable_name(&p.0)).collect()), self.block(&x.data.body)]),
            ]),
            S::FunctionCall(f) => Sh::Node(vec![self.call(f)]),
        }
    }
    fn lhs(&self, l: &a::AssignmentLHS) -> Sh {
        match l {
            a::AssignmentLHS::Identifier(i) => Sh::Node(vec![self.identifier(i)]),
            a::AssignmentLHS::ArraySubscript(s) => Sh::Node(vec![self.subscript(s)]),
        }
    }
    fn identifier(&self, i: &a::WithRange<a::Identifier>) -> Sh {
        match &i.0 {
            a::Identifier::VariableName(n) => Sh::Node(vec![self.variable_name(n)]),
            a::Identifier::Pronoun => Sh::Node(vec![Sh::Leaf(Ev::Pronoun)]),
        }
    }
    fn variable_name(&self, n: &a::VariableName) -> Sh {
        Sh::Node(vec![Sh::Leaf(match n {
            a::VariableName::Simple(x) => Ev::Simple(x.0.clone()),
            a::VariableName::Common(x) => Ev::Common(x.0.clone(), x.1.clone()),
            a::VariableName::Proper(x) => Ev::Proper(x.0.clone()),
        })])
    }
    fn subscript(&self, s: &a::ArraySubscript) -> Sh {
        Sh::Node(vec![self.primary(&s.array), self.primary(&s.subscript)])
    }
    fn primary(&self, p: &a::PrimaryExpression) -> Sh {
        Sh::Node(vec![match p {
            a::PrimaryExpression::Literal(l) => Sh::Leaf(Ev::Lit(format!("{:?}", l.0))),
            a::PrimaryExpression::Identifier(i) => self.identifier(i),
            a::PrimaryExpression::ArraySubscript(s) => self.subscript(s),
            a::PrimaryExpression::FunctionCall(f) => self.call(f),
            a::PrimaryExpression::ArrayPop(p) => self.pop_expr(p),
        }])
    }
    fn call(&self, f: &a::FunctionCall) -> Sh {
        let mut ch = vec![self.variable_name(&f.name.0)];
        ch.extend(f.args.iter().map(|e| self.expression(e)));
        Sh::Node(ch)
    }
    fn pop_expr(&self, p: &a::ArrayPopExpr) -> Sh {
        Sh::Node(vec![self.primary(&p.array)])
    }
    fn expression(&self, e: &a::Expression) -> Sh {
        Sh::Node(vec![match e {
            a::Expression::PrimaryExpression(p) => self.primary(p),
            a::Expression::BinaryExpression(b) => Sh::Node(vec![self.expression(&b.lhs), Sh::Leaf(Ev::Bin(format!("{:?}", b.operator))), self.expression_list(&b.rhs)]),
            a::Expression::UnaryExpression(u) => Sh::Node(vec![Sh::Leaf(Ev::Un(format!("{:?}", u.operator))), self.expression(&u.operand)]),
        }])
    }
    fn expression_list(&self, l: &a::ExpressionList) -> Sh {
        let mut ch = vec![self.expression(&l.first)];
        ch.extend(l.rest.iter().map(|e| self.expression(e)));
        Sh::Node(ch)
    }
    fn poetic(&self, p: &a::PoeticNumberLiteral) -> Sh {
        Sh::Node(p.elems.iter().map(|e| Sh::Leaf(Ev::PElem(format!("{:?}", e)))).collect())
    }
}

// ---------------------------------------------------------------- typed reference walk over the public AST
/// every typed node in field order: Enter(kind) for interior nodes, the leaf events, and a Start where a
/// pure list (program blocks, block statements, expression list, poetic literal elements, parameters)
/// begins its fold
pub struct RefWalk {
    pub out: Vec<Ev>,
}
impl RefWalk {
    fn program(&mut self, p: &a::Program) {
        self.out.push(Ev::Start);
        p.code.iter().for_each(|b| self.block(b));
    }
    fn block(&mut self, b: &a::Block) {
        if let a::Block::NonEmpty(ss) = b {
            self.out.push(Ev::Start);
            ss.iter().for_each(|s| self.stmt(s));
        }
    }
    fn stmt(&mut self, s: &a::Statement) {
        use a::Statement as S;
        match s {
            S::Assignment(x) => {
                self.lhs(&x.dest);
                if let Some(o) = x.operator {
                    self.out.push(Ev::Bin(format!("{:?}", o)));
                }
                self.out.push(Ev::Enter("assignment_rhs"));
                match &x.value {
                    a::AssignmentRHS::ExpressionList(e) => self.expression_list(e),
                }
            }
            S::PoeticAssignment(a::PoeticAssignment::Number(x)) => {
                self.lhs(&x.dest);
                self.out.push(Ev::Enter("poetic_number_assignment_rhs"));
                match &x.rhs {
                    a::PoeticNumberAssignmentRHS::Expression(e) => self.expression(e),
                    a::PoeticNumberAssignmentRHS::PoeticNumberLiteral(p) => self.poetic(p),
                }
            }
            S::PoeticAssignment(a::PoeticAssignment::String(x)) => self.lhs(&x.dest),
            S::If(x) => {
                self.expression(&x.condition);
                self.block(&x.then_block);
                if let Some(b) = &x.else_block {
                    self.block(b);
                }
            }
            S::While(x) => {
                self.expression(&x.condition);
                self.block(&x.block);
            }
            S::Until(x) => {
                self.expression(&x.condition);
                self.block(&x.block);
            }
            S::Inc(x) => self.identifier(&x.dest),
            S::Dec(x) => self.identifier(&x.dest),
            S::Input(x) => {
                if let Some(d) = x.dest.opt() {
                    self.lhs(d);
                }
            }
            S::Output(x) => self.expression(&x.value),
            S::Return(x) => self.expression(&x.value),
            S::Mutation(x) => {
                self.primary(&x.operand);
                if let Some(d) = &x.dest {
                    self.lhs(d);
                }
                if let Some(p) = &x.param {
                    self.expression(p);
                }
            }
            S::Rounding(x) => self.expression(&x.operand),
            S::Continue(_) | S::Break(_) => {}
            S::ArrayPush(x) => {
                self.primary(&x.array);
                if let Some(v) = &x.value {
                    self.out.push(Ev::Enter("array_push_rhs"));
                    match v {
                        a::ArrayPushRHS::ExpressionList(e) => self.expression_list(e),
                        a::ArrayPushRHS::PoeticNumberLiteral(p) => self.poetic(p),
                    }
                }
            }
            S::ArrayPop(x) => {
                self.pop_expr(&x.expr);
                if let Some(d) = &x.dest {
                    self.lhs(d);
                }
            }
            S::Function(x) => {
                self.variable_name(&x.name.0);
                if !x.data.params.is_empty() {
                    self.out.push(Ev::Start);
                }
                x.data.params.iter().for_each(|p| self.variable_name(&p.0));
                self.block(&x.data.body);
            }
            S::FunctionCall(f) => self.call(f),
        }
    }
    fn lhs(&mut self, l: &a::AssignmentLHS) {
        self.out.push(Ev::Enter("assignment_lhs"));
        match l {
            a::AssignmentLHS::Identifier(i) => self.identifier(i),
            a::AssignmentLHS::ArraySubscript(s) => self.subscript(s),
        }
    }
    fn identifier(&mut self, i: &a::WithRange<a::Identifier>) {
        self.out.push(Ev::Enter("identifier"));
        match &i.0 {
            a::Identifier::VariableName(n) => self.variable_name(n),
            a::Identifier::Pronoun => self.out.push(Ev::Pronoun),
        }
    }
    fn variable_name(&mut self, n: &a::VariableName) {
        self.out.push(Ev::Enter("variable_name"));
        self.out.push(match n {
            a::VariableName::Simple(x) => Ev::Simple(x.0.clone()),
            a::VariableName::Common(x) => Ev::Common(x.0.clone(), x.1.clone()),
            a::VariableName::Proper(x) => Ev::Proper(x.0.clone()),
        });
    }
    fn subscript(&mut self, s: &a::ArraySubscript) {
        self.out.push(Ev::Enter("array_subscript"));
        self.primary(&s.array);
        self.primary(&s.subscript);
    }
    fn primary(&mut self, p: &a::PrimaryExpression) {
        self.out.push(Ev::Enter("primary_expression"));
        match p {
            a::PrimaryExpression::Literal(l) => self.out.push(Ev::Lit(format!("{:?}", l.0))),
            a::PrimaryExpression::Identifier(i) => self.identifier(i),
            a::PrimaryExpression::ArraySubscript(s) => self.subscript(s),
            a::PrimaryExpression::FunctionCall(f) => self.call(f),
            a::PrimaryExpression::ArrayPop(p) => self.pop_expr(p),
        }
    }
    fn call(&mut self, f: &a::FunctionCall) {
        self.out.push(Ev::Enter("function_call"));
        self.variable_name(&f.name.0);
        f.args.iter().for_each(|e| self.expression(e));
    }
    fn pop_expr(&mut self, p: &a::ArrayPopExpr) {
        self.out.push(Ev::Enter("array_pop_expr"));
        self.primary(&p.array);
    }
    fn expression(&mut self, e: &a::Expression) {
        self.out.push(Ev::Enter("expression"));
        match e {
            a::Expression::PrimaryExpression(p) => self.primary(p),
            a::Expression::BinaryExpression(b) => {
                self.out.push(Ev::Enter("binary_expression"));
                self.expression(&b.lhs);
                self.out.push(Ev::Bin(format!("{:?}", b.operator)));
                self.expression_list(&b.rhs);
            }
            a::Expression::UnaryExpression(u) => {
                self.out.push(Ev::Enter("unary_expression"));
                self.out.push(Ev::Un(format!("{:?}", u.operator)));
                self.expression(&u.operand);
            }
        }
    }
    fn expression_list(&mut self, l: &a::ExpressionList) {
        self.out.push(Ev::Enter("expression_list"));
        self.out.push(Ev::Start);
        self.expression(&l.first);
        l.rest.iter().for_each(|e| self.expression(e));
    }
    fn poetic(&mut self, p: &a::PoeticNumberLiteral) {
        self.out.push(Ev::Enter("poetic_number_literal"));
        self.out.push(Ev::Start);
        p.elems.iter().for_each(|e| self.out.push(Ev::PElem(format!("{:?}", e))));
    }
}

pub fn typed_reference(p: &a::Program) -> Vec<Ev> {
    let mut w = RefWalk { out: Vec::new() };
    w.program(p);
    w.out
}

/// what probe `kind` must see: the leaves and the entries of its own kind
pub fn probe_expected(full: &[Ev], kind: &str) -> Vec<Ev> {
    full.iter()
        .filter(|e| match e {
            Ev::Start => false,
            Ev::Enter(k) => *k == kind,
            _ => true,
        })
        .cloned()
        .collect()
}

// ---------------------------------------------------------------- reference traversal (field order)

fn t_name(n: &Name, out: &mut Vec<Ev>) {
    out.push(match n {
        Name::Simple(s) => Ev::Simple(s.clone()),
        Name::Common(p, w) => Ev::Common(p.clone(), w.clone()),
        Name::Proper(ws) => Ev::Proper(ws.clone()),
    })
}
fn t_ident(i: &Ident, out: &mut Vec<Ev>) {
    match i {
        Ident::Name(n) => t_name(n, out),
        Ident::Pronoun => out.push(Ev::Pronoun),
    }
}
fn t_lit(l: &Lit, out: &mut Vec<Ev>) {
    let a = match l {
        Lit::Mysterious => a::LiteralExpression::Mysterious,
        Lit::Null => a::LiteralExpression::Null,
        Lit::Bool(b) => a::LiteralExpression::Boolean(*b),
        Lit::Num(n) => a::LiteralExpression::Number(*n),
        Lit::Str(s) => a::LiteralExpression::String(s.clone()),
    };
    out.push(Ev::Lit(format!("{:?}", a)));
}
fn t_prim(p: &Prim, out: &mut Vec<Ev>) {
    match p {
        Prim::Lit(l) => t_lit(l, out),
        Prim::Ident(i) => t_ident(i, out),
        Prim::Sub(a, i) => {
            t_prim(a, out);
            t_prim(i, out);
        }
        Prim::Call(n, args) => {
            t_name(n, out);
            args.iter().for_each(|e| t_expr(e, out));
        }
        Prim::Pop(x) => t_prim(x, out),
    }
}
fn t_expr(e: &Expr, out: &mut Vec<Ev>) {
    match e {
        Expr::Prim(p) => t_prim(p, out),
        Expr::Bin(op, l, rs) => {
            t_expr(l, out);
            out.push(Ev::Bin(format!("{:?}", to_ast::binop(*op))));
            rs.iter().for_each(|r| t_expr(r, out));
        }
        Expr::Un(op, x) => {
            out.push(Ev::Un(
                match op {
                    UnOp::Neg => "Minus",
                    UnOp::Not => "Not",
                }
                .to_string(),
            ));
            t_expr(x, out);
        }
    }
}
fn t_lhs(l: &Lhs, out: &mut Vec<Ev>) {
    match l {
        Lhs::Ident(i) => t_ident(i, out),
        Lhs::Sub(a, i) => {
            t_prim(a, out);
            t_prim(i, out);
        }
    }
}
fn t_pelems(es: &[PElem], out: &mut Vec<Ev>) {
    let lit = to_ast::pelems(es);
    for e in &lit.elems {
        out.push(Ev::PElem(format!("{:?}", e)));
    }
}
fn t_block(b: &[Stmt], out: &mut Vec<Ev>) {
    b.iter().for_each(|s| t_stmt(s, out));
}
fn t_stmt(s: &Stmt, out: &mut Vec<Ev>) {
    match s {
        Stmt::Assign { dest, op, value } => {
            t_lhs(dest, out);
            if let Some(o) = op {
                out.push(Ev::Bin(format!("{:?}", to_ast::binop(*o))));
            }
            value.iter().for_each(|e| t_expr(e, out));
        }
        Stmt::PoeticNum { dest, rhs } => {
            t_lhs(dest, out);
            match rhs {
                PoeticRhs::Expr(e) => t_expr(e, out),
                PoeticRhs::Lit(es) => t_pelems(es, out),
            }
        }
        Stmt::PoeticStr { dest, .. } => t_lhs(dest, out),
        Stmt::If { cond, then, els } => {
            t_expr(cond, out);
            t_block(then, out);
            if let Some(e) = els {
                t_block(e, out);
            }
        }
        Stmt::While { cond, body } | Stmt::Until { cond, body } => {
            t_expr(cond, out);
            t_block(body, out);
        }
        Stmt::Inc { dest, .. } | Stmt::Dec { dest, .. } => t_ident(dest, out),
        Stmt::Input { dest } => {
            if let Some(d) = dest {
                t_lhs(d, out);
            }
        }
        Stmt::Output(e) | Stmt::Return(e) => t_expr(e, out),
        Stmt::Mutation { operand, dest, param, .. } => {
            t_prim(operand, out);
            if let Some(d) = dest {
                t_lhs(d, out);
            }
            if let Some(p) = param {
                t_expr(p, out);
            }
        }
        Stmt::Round { operand, .. } => t_expr(operand, out),
        Stmt::Continue | Stmt::Break => {}
        Stmt::Push { array, value } => {
            t_prim(array, out);
            match value {
                Some(PushRhs::List(es)) => es.iter().for_each(|e| t_expr(e, out)),
                Some(PushRhs::Lit(es)) => t_pelems(es, out),
                None => {}
            }
        }
        Stmt::Pop { array, dest } => {
            t_prim(array, out);
            if let Some(d) = dest {
                t_lhs(d, out);
            }
        }
        Stmt::Function { name, params, body } => {
            t_name(name, out);
            params.iter().for_each(|p| t_name(p, out));
            t_block(body, out);
        }
        Stmt::Call(n, args) => {
            t_name(n, out);
            args.iter().for_each(|e| t_expr(e, out));
        }
    }
}

pub fn reference_traversal(p: &[Stmt]) -> Vec<Ev> {
    let mut out = Vec::new();
    t_block(p, &mut out);
    out
}

/// trees the parser never produces
fn exotic() -> Vec<Vec<Stmt>> {
    let x = || Prim::Ident(Ident::Name(Name::Simple("x".into())));
    let e = |n: f64| Expr::Prim(Prim::Lit(Lit::Num(n)));
    let say = |n: f64| Stmt::Output(e(n));
    let lit = vec![PElem::Word("abc".into()), PElem::Suffix("'s".into()), PElem::Dot, PElem::Word("de".into()), PElem::Suffix("-fg".into()), PElem::Dot];
    let mut v = vec![
        vec![Stmt::If { cond: e(1.0), then: vec![], els: Some(vec![]) }, say(2.0)],
        vec![Stmt::If { cond: e(1.0), then: vec![say(2.0)], els: Some(vec![]) }, say(3.0)],
        vec![Stmt::If { cond: e(1.0), then: vec![], els: None }, say(3.0)],
        vec![Stmt::While { cond: e(1.0), body: vec![] }, Stmt::Until { cond: e(2.0), body: vec![] }, say(3.0)],
        vec![Stmt::PoeticNum { dest: Lhs::Ident(Ident::Pronoun), rhs: PoeticRhs::Lit(lit.clone()) }],
        vec![Stmt::Push { array: x(), value: Some(PushRhs::Lit(lit.clone())) }, say(1.0)],
        vec![Stmt::PoeticNum { dest: Lhs::Sub(Box::new(x()), Box::new(Prim::Lit(Lit::Str("k".into())))), rhs: PoeticRhs::Lit(vec![]) }, say(1.0)],
        vec![],
    ];
    for np in 0..=3usize {
        let params: Vec<Name> = [Name::Simple("p".into()), Name::Common("the".into(), "q".into()), Name::Proper(vec!["Ab".into(), "Cd".into()])][..np].to_vec();
        v.push(vec![Stmt::Function { name: Name::Proper(vec!["Zed".into(), "Yod".into()]), params: params.clone(), body: vec![Stmt::Return(Expr::Prim(x()))] }, say(1.0)]);
        v.push(vec![Stmt::Function { name: Name::Simple("f".into()), params, body: vec![] }, say(1.0)]);
    }
    // every block slot empty / one statement / two statements / a nested block statement, in every
    // combination, for if (then x else incl. absent), while, until, function
    let fill = |k: usize, tag: f64| -> Vec<Stmt> {
        match k {
            0 => vec![],
            1 => vec![say(tag)],
            2 => vec![say(tag), say(tag + 0.5)],
            3 => vec![Stmt::If { cond: e(tag), then: vec![], els: Some(vec![say(tag + 0.25)]) }],
            _ => vec![Stmt::While { cond: e(tag), body: vec![Stmt::If { cond: e(tag), then: vec![say(tag + 0.1)], els: None }] }, say(tag + 0.75)],
        }
    };
    for a in 0..5usize {
        for b in 0..6usize {
            let els = if b == 5 { None } else { Some(fill(b, 20.0)) };
            v.push(vec![say(1.0), Stmt::If { cond: e(2.0), then: fill(a, 10.0), els }, say(3.0)]);
        }
        v.push(vec![Stmt::While { cond: e(2.0), body: fill(a, 10.0) }, say(3.0)]);
        v.push(vec![Stmt::Until { cond: e(2.0), body: fill(a, 10.0) }, say(3.0)]);
        v.push(vec![Stmt::Function { name: Name::Simple("f".into()), params: vec![Name::Simple("p".into())], body: fill(a, 10.0) }, say(3.0)]);
    }
    // left-nested operator chains, list tails, argument lists and subscript chains of n operands
    for n in [8usize, 9, 15, 16, 17, 18, 19, 32, 33, 34, 65] {
        let name = |i: usize| Expr::Prim(Prim::Ident(Ident::Name(Name::Simple(["x", "y", "z"][i % 3].into()))));
        let mut chain = name(0);
        for i in 1..n {
            chain = Expr::Bin(if i % 2 == 0 { BinOp::Plus } else { BinOp::Times }, Box::new(chain), vec![name(i)]);
        }
        v.push(vec![Stmt::Output(chain.clone()), say(1.0)]);
        v.push(vec![Stmt::Output(Expr::Bin(BinOp::Plus, Box::new(e(0.0)), (0..n).map(name).collect()))]);
        v.push(vec![Stmt::Push { array: x(), value: Some(PushRhs::List((0..n).map(name).collect())) }]);
        v.push(vec![Stmt::Output(Expr::Prim(Prim::Call(Name::Simple("f".into()), (0..n).map(name).collect())))]);
        let mut sub = x();
        for i in 0..n {
            sub = Prim::Sub(Box::new(sub), Box::new(Prim::Lit(Lit::Num(i as f64))));
        }
        v.push(vec![Stmt::Output(Expr::Prim(sub))]);
        let mut right = name(0);
        for i in 1..n {
            right = Expr::Bin(BinOp::Minus, Box::new(name(i)), vec![right]);
        }
        v.push(vec![Stmt::Output(right)]);
    }
    // nesting depth 2 with every block slot used
    v.push(vec![Stmt::Function {
        name: Name::Simple("f".into()),
        params: vec![Name::Simple("p".into())],
        body: vec![
            Stmt::If {
                cond: Expr::Bin(BinOp::And, Box::new(e(1.0)), vec![e(2.0), e(3.0)]),
                then: vec![Stmt::While { cond: e(4.0), body: vec![Stmt::Break, say(5.0)] }],
                els: Some(vec![Stmt::Until { cond: e(6.0), body: vec![Stmt::Continue, say(7.0)] }]),
            },
            say(8.0),
        ],
    }]);
    v
}

pub struct C16 {
    progs: Rc<Vec<Vec<Stmt>>>,
    prefix: Rc<Vec<u64>>,
    /// prefix sums over (program, probe): 1 + number of entries of that probe's kind
    probe_prefix: Rc<Vec<u64>>,
}

fn build(tier: Tier) -> Box<dyn Check> {
    let mut progs: Vec<Vec<Stmt>> = Vec::new();
    for (_, s) in c02::canonical_corpus() {
        progs.push(s);
    }
    let mut memo = std::collections::HashMap::new();
    for n in 1..=tier.pick(5, 7) {
        for sh in c02::shape_block(n, 3, &mut memo).iter() {
            let mut c = 0;
            if let Some((_, s)) = crate::refmodel::grammar::lines(&c02::shape_to_tsb(&sh, &mut c)) {
                progs.push(s);
            }
        }
    }
    progs.extend(exotic());
    let mut prefix = vec![0u64];
    let mut probe_prefix = vec![0u64];
    for p in &progs {
        prefix.push(prefix.last().unwrap() + reference_traversal(p).len() as u64 + 1);
        let full = typed_reference(&to_ast::program(p));
        for kind in PROBES {
            let n = full.iter().filter(|e| **e == Ev::Enter(kind)).count() as u64;
            probe_prefix.push(probe_prefix.last().unwrap() + n + 1);
        }
    }
    Box::new(C16 { progs: Rc::new(progs), prefix: Rc::new(prefix), probe_prefix: Rc::new(probe_prefix) })
}

fn locate(prefix: &[u64], idx: u64) -> (usize, u64) {
    let p = match prefix.binary_search(&idx) {
        Ok(mut p) => {
            while prefix[p + 1] == prefix[p] {
                p += 1;
            }
            p
        }
        Err(p) => p - 1,
    };
    (p, idx - prefix[p])
}

impl C16 {
    fn leaf_case(&self, idx: u64, ctx: &mut Ctx) {
        let (p, k) = locate(&self.prefix, idx);
        let prog = &self.progs[p];
        let expected = reference_traversal(prog);
        let n = expected.len();
        let fail_at = if k as usize == n { None } else { Some(k as usize) };
        if n >= 2 {
            ctx.nontrivial();
        }
        let ast = to_ast::program(prog);
        let mut runner = ExprVisitorRunner::with_inner(Recorder { log: Vec::new(), fail_at });
        let result = runner.visit_program(&ast);
        let rec = runner.inner();
        ctx.observe_str(&format!("{:?}|{}", result.as_ref().map(|e| e.0.len()), rec.log.len()));
        ctx.add("leaf_callbacks", rec.log.len() as u64);
        compare(ctx, prog, "leaf visitor", &expected, fail_at, result, &rec.log);
    }

    fn probe_case(&self, idx: u64, ctx: &mut Ctx) {
        let (pk, j) = locate(&self.probe_prefix, idx);
        let (p, k) = (pk / PROBES.len(), pk % PROBES.len());
        let prog = &self.progs[p];
        let ast = to_ast::program(prog);
        let full = typed_reference(&ast);
        // the typed walk over the AST and the walk over its RAst mirror are two hand-written references: they must agree on the leaves
        let leaves: Vec<Ev> = full.iter().filter(|e| !matches!(e, Ev::Enter(_) | Ev::Start)).cloned().collect();
        if leaves != reference_traversal(prog) {
            panic!("machinery: the two reference traversals disagree on {:?}", prog);
        }
        let expected = probe_expected(&full, PROBES[k]);
        let entries: Vec<usize> = expected.iter().enumerate().filter(|(_, e)| matches!(e, Ev::Enter(_))).map(|(i, _)| i).collect();
        let fail_at = entries.get(j as usize).copied();
        if !entries.is_empty() {
            ctx.nontrivial();
            ctx.count(&format!("probe.{}", PROBES[k]));
        }
        let (result, log) = run_probe(k, &ast, fail_at);
        ctx.observe_str(&format!("{}|{:?}|{}", k, result.as_ref().map(|e| e.0.len()), log.len()));
        ctx.add("interior_callbacks", log.iter().filter(|e| matches!(e, Ev::Enter(_))).count() as u64);
        compare(ctx, prog, &format!("visitor overriding visit_{}", PROBES[k]), &expected, fail_at, result, &log);
    }

    fn grouping_case(&self, idx: u64, ctx: &mut Ctx) {
        let prog = &self.progs[idx as usize];
        let ast = to_ast::program(prog);
        let shape = ShapeOf.program(&ast);
        let mut runner = ExprVisitorRunner::with_inner(TreeRecorder);
        let result = match runner.visit_program(&ast) {
            Ok(t) => t,
            Err(e) => {
                ctx.violation("wrong-fold", format!("walk without failing callback returned Err({}) — program {:?}", e, prog));
                return;
            }
        };
        ctx.nontrivial();
        ctx.observe_str(&format!("{:?}", result).len().to_string());
        if !shape_matches(&result, &shape) {
            ctx.violation(
                "fold-not-left-to-right",
                format!("with an output that remembers how it was combined, the result is not what folding every node's children left to right gives (an optional default first, absent parts as a default or left out): result {:?} — program {:?}", result, prog),
            );
        }
    }

    fn statement_case(&self, idx: u64, ctx: &mut Ctx) {
        let prog = &self.progs[idx as usize];
        let ast = to_ast::program(prog);
        let mut want = Vec::new();
        statement_tags(prog, &mut want);
        ctx.nontrivial();
        ctx.observe_str(&want.len().to_string());
        // no failure, then a failure at every statement in turn
        for fail_at in std::iter::once(None).chain((0..want.len()).map(Some)) {
            let mut probe = StmtProbe { seen: 0, fail_at };
            let got = probe.visit_program(&ast);
            let expected: Result<Tags, usize> = match fail_at {
                None => Ok(Tags(want.clone())),
                Some(k) => Err(k),
            };
            let seen_want = fail_at.map_or(want.len(), |k| k + 1);
            if got != expected || probe.seen != seen_want {
                ctx.violation(
                    "default-traversal",
                    format!(
                        "a statement visitor on the default traversal (failing at {:?}) returned {:?} after {} callbacks, expected {:?} after {} — program {:?}",
                        fail_at, got, probe.seen, expected, seen_want, prog
                    ),
                );
                return;
            }
        }
    }
    fn fold_case(&self, idx: u64, ctx: &mut Ctx) {
        let prog = &self.progs[idx as usize];
        let ast = to_ast::program(prog);
        let full = typed_reference(&ast);
        let mut runner = ExprVisitorRunner::with_inner(MarkedRecorder);
        let result = match runner.visit_program(&ast) {
            Ok(m) => m.0,
            Err(e) => {
                ctx.violation("wrong-fold", format!("walk without failing callback returned Err({}) — program {:?}", e, prog));
                return;
            }
        };
        ctx.nontrivial();
        ctx.observe_str(&format!("{}", result.len()));
        // split both streams at the leaves: gap g = events before the g-th leaf (last gap: after the last leaf)
        let gaps = |evs: &[Ev]| -> (Vec<Ev>, Vec<usize>) {
            let mut leaves = Vec::new();
            let mut starts = vec![0usize];
            for e in evs {
                match e {
                    Ev::Start => *starts.last_mut().unwrap() += 1,
                    Ev::Enter(_) => {}
                    l => {
                        leaves.push(l.clone());
                        starts.push(0);
                    }
                }
            }
            (leaves, starts)
        };
        let (want_leaves, want_starts) = gaps(&full);
        let (got_leaves, got_starts) = gaps(&result);
        if got_leaves != want_leaves {
            let d = first_diff(&got_leaves, &want_leaves);
            ctx.violation("wrong-fold", format!("with an output type whose default is visible, the folded leaves differ from the tree in field order at {}: got {:?} expected {:?} — program {:?}", d, got_leaves.get(d), want_leaves.get(d), prog));
            return;
        }
        ctx.add("list_folds", want_starts.iter().sum::<usize>() as u64);
        for (g, (got, want)) in got_starts.iter().zip(&want_starts).enumerate() {
            if got < want {
                ctx.violation(
                    "fold-not-from-default",
                    format!(
                        "{} list fold(s) (program blocks / block statements / expression list / poetic literal / parameters) begin before leaf {} ({:?}) but only {} default value(s) were folded in there: a fold did not start from the default — program {:?}, result {:?}",
                        want,
                        g,
                        want_leaves.get(g),
                        got,
                        prog,
                        result
                    ),
                );
                return;
            }
        }
    }
}

fn compare(ctx: &mut Ctx, prog: &[Stmt], who: &str, expected: &[Ev], fail_at: Option<usize>, result: Result<Events, usize>, log: &[Ev]) {
    match fail_at {
        None => {
            if log != expected {
                let d = first_diff(log, expected);
                ctx.violation("wrong-traversal", format!("{}: callbacks differ from the tree in field order at event {}: visited {:?} expected {:?} — program {:?}", who, d, log.get(d), expected.get(d), prog));
            }
            match result {
                Ok(ev) => {
                    if ev.0 != log {
                        let d = first_diff(&ev.0, log);
                        ctx.violation("wrong-fold", format!("{}: the folded result differs from the visiting order at position {} (result {:?}, visited {:?}) — program {:?}", who, d, ev.0.get(d), log.get(d), prog));
                    }
                }
                Err(e) => ctx.violation("wrong-fold", format!("{}: walk without failing callback returned Err({})", who, e)),
            }
        }
        Some(k) => {
            if result != Err(k) {
                ctx.violation("error-not-propagated", format!("{}: callback {} failed but the walk returned {:?} — program {:?}", who, k, result.map(|e| e.0.len()), prog));
            }
            if log.len() <= k || log[..] != expected[..=k] {
                ctx.violation(
                    "walk-continued-after-error",
                    format!("{}: callback {} failed; the visitor was called {} times, expected exactly {} (the prefix of the traversal) — program {:?}", who, k, log.len(), k + 1, prog),
                );
            }
        }
    }
}

impl Check for C16 {
    fn families(&self) -> Vec<(String, u64)> {
        vec![
            ("program x failing leaf position".into(), *self.prefix.last().unwrap()),
            ("program x interior callback x failing entry".into(), *self.probe_prefix.last().unwrap()),
            ("program folded into an output with a visible default".into(), self.progs.len() as u64),
            ("program folded into an output that shows the grouping".into(), self.progs.len() as u64),
            ("program walked by a statement visitor on the default traversal x failing statement".into(), self.progs.len() as u64),
        ]
    }
    fn describe(&self, fam: usize, idx: u64) -> Value {
        match fam {
            0 => {
                let (p, k) = locate(&self.prefix, idx);
                let n = reference_traversal(&self.progs[p]).len() as u64;
                json!({"text": format!("{:?} fail_at={}", self.progs[p], if k == n { "never".to_string() } else { k.to_string() }), "leaf_events": n})
            }
            1 => {
                let (pk, j) = locate(&self.probe_prefix, idx);
                let (p, k) = (pk / PROBES.len(), pk % PROBES.len());
                json!({"text": format!("{:?} override=visit_{} failing_entry={}", self.progs[p], PROBES[k], j)})
            }
            2 => json!({"text": format!("{:?} output=marked", self.progs[idx as usize])}),
            3 => json!({"text": format!("{:?} output=grouping", self.progs[idx as usize])}),
            _ => json!({"text": format!("{:?} statement-visitor", self.progs[idx as usize])}),
        }
    }
    fn run_case(&self, fam: usize, idx: u64, ctx: &mut Ctx) {
        match fam {
            0 => self.leaf_case(idx, ctx),
            1 => self.probe_case(idx, ctx),
            2 => self.fold_case(idx, ctx),
            3 => self.grouping_case(idx, ctx),
            _ => self.statement_case(idx, ctx),
        }
    }
    fn static_coverage(&self) -> Value {
        json!({"programs": self.progs.len(), "interior_callbacks_probed": PROBES})
    }
}


// ---------------------------------------------------------------- statement-level visitor on the default traversal
// Overrides only the callbacks of statements without blocks; every block (then / else, while, until,
// function body, the program's block list) is reached through the crate's VisitProgram defaults.
#[derive(Default, Debug, PartialEq, Clone)]
pub struct Tags(pub Vec<&'static str>);
impl Combine for Tags {
    fn combine(mut self, other: Self) -> Self {
        self.0.extend(other.0);
        self
    }
}
pub struct StmtProbe {
    pub seen: usize,
    pub fail_at: Option<usize>,
}
impl StmtProbe {
    fn tag(&mut self, t: &'static str) -> Result<Tags, usize> {
        let k = self.seen;
        self.seen += 1;
        if self.fail_at == Some(k) {
            Err(k)
        } else {
            Ok(Tags(vec![t]))
        }
    }
}
impl Visit for StmtProbe {
    type Output = Tags;
    type Error = usize;
}
impl VisitProgram for StmtProbe {
    fn visit_assignment(&mut self, _: &a::Assignment) -> visit::Result<Self> {
        self.tag("assign")
    }
    fn visit_poetic_number_assignment(&mut self, _: &a::PoeticNumberAssignment) -> visit::Result<Self> {
        self.tag("poetic-number")
    }
    fn visit_poetic_string_assignment(&mut self, _: &a::PoeticStringAssignment) -> visit::Result<Self> {
        self.tag("poetic-string")
    }
    fn visit_inc(&mut self, _: &a::Inc) -> visit::Result<Self> {
        self.tag("inc")
    }
    fn visit_dec(&mut self, _: &a::Dec) -> visit::Result<Self> {
        self.tag("dec")
    }
    fn visit_input(&mut self, _: &a::Input) -> visit::Result<Self> {
        self.tag("input")
    }
    fn visit_output(&mut self, _: &a::Output) -> visit::Result<Self> {
        self.tag("output")
    }
    fn visit_mutation_operator(&mut self, _: a::MutationOperator) -> visit::Result<Self> {
        self.tag("mutation")
    }
    fn visit_rounding_direction(&mut self, _: a::RoundingDirection) -> visit::Result<Self> {
        self.tag("rounding")
    }
    fn visit_continue(&mut self, _: &a::Continue) -> visit::Result<Self> {
        self.tag("continue")
    }
    fn visit_break(&mut self, _: &a::Break) -> visit::Result<Self> {
        self.tag("break")
    }
    fn visit_array_push(&mut self, _: &a::ArrayPush) -> visit::Result<Self> {
        self.tag("push")
    }
    fn visit_array_pop(&mut self, _: &a::ArrayPop) -> visit::Result<Self> {
        self.tag("pop")
    }
    fn visit_return(&mut self, _: &a::Return) -> visit::Result<Self> {
        self.tag("return")
    }
    fn visit_function_call_statement(&mut self, _: &a::FunctionCall) -> visit::Result<Self> {
        self.tag("call")
    }
}

/// the statements without blocks, in source order, every block entered
fn statement_tags(prog: &[Stmt], out: &mut Vec<&'static str>) {
    for s in prog {
        match s {
            Stmt::Assign { .. } => out.push("assign"),
            Stmt::PoeticNum { .. } => out.push("poetic-number"),
            Stmt::PoeticStr { .. } => out.push("poetic-string"),
            Stmt::If { then, els, .. } => {
                statement_tags(then, out);
                if let Some(e) = els {
                    statement_tags(e, out);
                }
            }
            Stmt::While { body, .. } | Stmt::Until { body, .. } | Stmt::Function { body, .. } => statement_tags(body, out),
            Stmt::Inc { .. } => out.push("inc"),
            Stmt::Dec { .. } => out.push("dec"),
            Stmt::Input { .. } => out.push("input"),
            Stmt::Output(_) => out.push("output"),
            Stmt::Mutation { .. } => out.push("mutation"),
            Stmt::Round { .. } => out.push("rounding"),
            Stmt::Continue => out.push("continue"),
            Stmt::Break => out.push("break"),
            Stmt::Push { .. } => out.push("push"),
            Stmt::Pop { .. } => out.push("pop"),
            Stmt::Return(_) => out.push("return"),
            Stmt::Call(..) => out.push("call"),
        }
    }
}

fn first_diff(a: &[Ev], b: &[Ev]) -> usize {
    let mut i = 0;
    while i < a.len() && i < b.len() && a[i] == b[i] {
        i += 1;
    }
    i
}
